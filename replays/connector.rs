// Replay templates for unit `connector` (src/client/conn/connector.rs + the request path of src/client/pool/service.rs):
// concrete scenarios against the REAL crate.  Compiled inside `crate::client::conn::connector::verif_replays`
// (features verif-hooks + mocks) so that the private fields of `Connector` / `ConnectorState` are visible.
//
// The scripted transport / protocol below honour tower's readiness contract and *check* it: `call` without a preceding
// `poll_ready -> Ready(Ok)` on the same value panics, a future polled after completion panics - exactly what real
// services may do.  Every scenario must end in Ok / Err, never in a panic, and every Pending must come with a wake-up.
use super::*;
use crate::client::conn::connection::ConnectionError as ConnErr;
use crate::client::conn::protocol::mock::MockSender;
use crate::client::conn::protocol::ProtocolRequest;
use crate::client::conn::stream::mock::MockStream;
use crate::client::conn::transport::mock::MockConnectionError;
use crate::helpers::IntoRequestParts;
use crate::BoxFuture;
use std::sync::atomic::{AtomicUsize, Ordering};
use std::sync::{Arc, Mutex};
use std::task::{Wake, Waker};
use std::time::Duration;

type Log = Arc<Mutex<Vec<String>>>;
fn log(l: &Log, s: impl Into<String>) { l.lock().unwrap().push(s.into()); }
fn count(l: &Log, prefix: &str) -> usize { l.lock().unwrap().iter().filter(|e| e.starts_with(prefix)).count() }

/// a future that answers Pending `n` times (waking the task each time), then `out`; polling it again panics
struct PendN<T> { n: usize, out: Option<T>, log: Log, name: &'static str }
impl<T: Unpin> Future for PendN<T> {
    type Output = T;
    fn poll(mut self: Pin<&mut Self>, cx: &mut Context<'_>) -> Poll<T> {
        log(&self.log, format!("{}.poll", self.name));
        if self.n > 0 {
            self.n -= 1;
            cx.waker().wake_by_ref();
            return Poll::Pending;
        }
        Poll::Ready(self.out.take().expect("scripted future polled after completion"))
    }
}

#[derive(Debug, Clone, Copy, PartialEq, Eq)]
enum Fail { None, TransportReady, Connect, ProtocolReady, Handshake }

#[derive(Debug)]
struct TestTransport { ready_pending: usize, ready_pending0: usize, connect_pending: usize, fail: Fail, ready: bool, log: Log }
impl Clone for TestTransport {
    /// a clone has to be driven to readiness again (tower): it starts with the original script
    fn clone(&self) -> Self {
        Self { ready_pending: self.ready_pending0, ready_pending0: self.ready_pending0, connect_pending: self.connect_pending, fail: self.fail, ready: false, log: self.log.clone() }
    }
}
impl tower::Service<http::request::Parts> for TestTransport {
    type Response = MockStream;
    type Error = MockConnectionError;
    type Future = BoxFuture<'static, Result<MockStream, MockConnectionError>>;
    fn poll_ready(&mut self, cx: &mut Context<'_>) -> Poll<Result<(), Self::Error>> {
        log(&self.log, "t.ready");
        if self.ready_pending > 0 {
            self.ready_pending -= 1;
            cx.waker().wake_by_ref();
            return Poll::Pending;
        }
        if self.fail == Fail::TransportReady { return Poll::Ready(Err(MockConnectionError)); }
        self.ready = true;
        Poll::Ready(Ok(()))
    }
    fn call(&mut self, req: http::request::Parts) -> Self::Future {
        assert!(self.ready, "transport called without poll_ready -> Ready(Ok) (tower contract)");
        self.ready = false;
        log(&self.log, format!("t.call {} {:?}", req.uri, req.version));
        let out = if self.fail == Fail::Connect { Err(MockConnectionError) } else {
            let stream = MockStream::reusable();
            log(&self.log, format!("t.stream {:?} {}", stream.id(), req.uri)); // which request this stream was dialled for
            Ok(stream)
        };
        Box::pin(PendN { n: self.connect_pending, out: Some(out), log: self.log.clone(), name: "connect" })
    }
}

#[derive(Debug)]
struct TestProtocol { ready_pending: usize, ready_pending0: usize, hs_pending: usize, fail: Fail, ready: bool, log: Log }
impl Clone for TestProtocol {
    fn clone(&self) -> Self {
        Self { ready_pending: self.ready_pending0, ready_pending0: self.ready_pending0, hs_pending: self.hs_pending, fail: self.fail, ready: false, log: self.log.clone() }
    }
}
impl tower::Service<ProtocolRequest<MockStream, crate::Body>> for TestProtocol {
    type Response = MockSender;
    type Error = ConnErr;
    type Future = BoxFuture<'static, Result<MockSender, ConnErr>>;
    fn poll_ready(&mut self, cx: &mut Context<'_>) -> Poll<Result<(), Self::Error>> {
        log(&self.log, "p.ready");
        if self.ready_pending > 0 {
            self.ready_pending -= 1;
            cx.waker().wake_by_ref();
            return Poll::Pending;
        }
        if self.fail == Fail::ProtocolReady { return Poll::Ready(Err(ConnErr::Timeout)); }
        self.ready = true;
        Poll::Ready(Ok(()))
    }
    fn call(&mut self, req: ProtocolRequest<MockStream, crate::Body>) -> Self::Future {
        assert!(self.ready, "protocol called without poll_ready -> Ready(Ok) (tower contract)");
        self.ready = false;
        let out = if self.fail == Fail::Handshake { Err(ConnErr::Timeout) } else {
            let c = MockSender::reusable();
            log(&self.log, format!("p.made {:?}", c.id()));
            Ok(c)
        };
        log(&self.log, format!("p.call {:?} on {:?}", req.version, req.transport.id()));
        Box::pin(PendN { n: self.hs_pending, out: Some(out), log: self.log.clone(), name: "handshake" })
    }
}

fn pair(a: usize, b: usize, c: usize, d: usize, fail: Fail) -> (TestTransport, TestProtocol, Log) {
    let l: Log = Default::default();
    (TestTransport { ready_pending: a, ready_pending0: a, connect_pending: b, fail, ready: false, log: l.clone() },
     TestProtocol { ready_pending: c, ready_pending0: c, hs_pending: d, fail, ready: false, log: l.clone() }, l)
}

struct CountWake(AtomicUsize);
impl Wake for CountWake { fn wake(self: Arc<Self>) { self.0.fetch_add(1, Ordering::SeqCst); } }

fn state_name<T: Transport, P: Protocol<T::IO, B>, B>(c: &Connector<T, P, B>) -> &'static str {
    match &c.state {
        ConnectorState::PollReadyTransport { .. } => "PollReadyTransport",
        ConnectorState::Connect { .. } => "Connect",
        ConnectorState::PollReadyHandshake { .. } => "PollReadyHandshake",
        ConnectorState::Handshake { .. } => "Handshake",
    }
}
/// the state invariant `wf` of the unit, on the real value
fn live<T: Transport, P: Protocol<T::IO, B>, B>(c: &Connector<T, P, B>) -> bool {
    match &c.state {
        ConnectorState::PollReadyTransport { parts, transport, protocol } => parts.is_some() && transport.is_some() && protocol.is_some() && c.version.is_some(),
        ConnectorState::Connect { protocol, .. } => protocol.is_some() && c.version.is_some(),
        ConnectorState::PollReadyHandshake { protocol, stream } => protocol.is_some() && stream.is_some() && c.version.is_some(),
        ConnectorState::Handshake { .. } => true,
    }
}

type Outcome = Result<MockSender, Error<MockConnectionError, ConnErr>>;

/// drives one `Connector` by hand; checks after every poll: Pending => woken + state invariant + exactly one stage
/// poll more than the stage answered Pending; returns (number of Pending polls, outcome, notify calls)
fn drive(a: usize, b: usize, c: usize, d: usize, fail: Fail, version: HttpProtocol, shareable: bool) -> (usize, Outcome, usize, Log) {
    let (t, p, l) = pair(a, b, c, d, fail);
    let mut connector = Box::pin(Connector::new(t, p, "http://example.test:8080/x".into_request_parts(), version));
    if shareable {
        // `new` hard-codes `shareable = false` (TODO in the source); the notify path is exercised by setting the field
        *connector.as_mut().project().shareable = true;
    }
    let mut meta = ConnectorMeta::new();
    let wakes = Arc::new(CountWake(AtomicUsize::new(0)));
    let waker = Waker::from(wakes.clone());
    let mut cx = Context::from_waker(&waker);
    let notified = Arc::new(AtomicUsize::new(0));
    let mut pendings = 0;
    for _ in 0..64 {
        let w0 = wakes.0.load(Ordering::SeqCst);
        let n = notified.clone();
        let hs_polls_before = count(&l, "handshake.poll");
        let r = connector.as_mut().poll_connector(move || { n.fetch_add(1, Ordering::SeqCst); }, &mut meta, &mut cx);
        if notified.load(Ordering::SeqCst) > 0 && hs_polls_before == 0 {
            // notify happens before the handshake future is first polled in a *later* call, or in the very call that
            // creates it (then the handshake is polled right after)
            assert!(count(&l, "p.call") == 1, "notify before the handshake was started");
        }
        match r {
            Poll::Pending => {
                pendings += 1;
                assert!(wakes.0.load(Ordering::SeqCst) > w0, "Pending without a wake-up: the stage that is waited for was not polled in this call (state {})", state_name(&connector));
                assert!(live(&connector), "Pending returned but the {} state lost a value it needs: the next poll panics", state_name(&connector));
            }
            Poll::Ready(out) => return (pendings, out, notified.load(Ordering::SeqCst), l),
        }
    }
    panic!("connector did not finish within 64 polls (scenario {a} {b} {c} {d} {fail:?})");
}

fn expect_outcome(fail: Fail, out: &Outcome, l: &Log) {
    match (fail, out) {
        (Fail::None, Ok(conn)) => {
            let made = format!("p.made {:?}", conn.id());
            assert!(l.lock().unwrap().iter().any(|e| *e == made), "the connection returned is not the one the handshake produced");
        }
        (Fail::TransportReady, Err(Error::Connecting(MockConnectionError))) | (Fail::Connect, Err(Error::Connecting(MockConnectionError))) => {}
        (Fail::ProtocolReady, Err(Error::Handshaking(ConnErr::Timeout))) | (Fail::Handshake, Err(Error::Handshaking(ConnErr::Timeout))) => {}
        (f, o) => panic!("stage {f:?} failed / nothing failed, but the connector answered {:?}", o.as_ref().map(|c| c.id())),
    }
}

/// cn.stays_live, cn.polled_live, cn.result_of_stage, cn.first_stage_result, cn.handshake_result, cn.stage_polled_once,
/// cn.new_stage_polled_once, cn.no_skip, cn.monotone, cn.poll_terminates [C17,C03]: every combination of
/// "Pending k times" per stage (k <= 2) and of the failing stage
#[test]
fn connector_every_stage_pending_and_failing() {
    for fail in [Fail::None, Fail::TransportReady, Fail::Connect, Fail::ProtocolReady, Fail::Handshake] {
        for a in 0..3 { for b in 0..3 { for c in 0..3 { for d in 0..3 {
            let (pendings, out, notified, l) = drive(a, b, c, d, fail, HttpProtocol::Http1, false);
            expect_outcome(fail, &out, &l);
            // Pending exactly as often as the stages that were reached answered Pending
            let want = match fail { Fail::TransportReady => a, Fail::Connect => a + b, Fail::ProtocolReady => a + b + c, _ => a + b + c + d };
            assert_eq!(pendings, want, "number of Pending results ({a} {b} {c} {d} {fail:?})");
            // every stage is polled once per answer it gave: no stage is polled again after it completed, none is skipped
            let reached = |s: Fail| fail == Fail::None || (fail as usize) >= (s as usize);
            assert_eq!(count(&l, "t.ready"), a + 1);
            assert_eq!(count(&l, "t.call"), if reached(Fail::Connect) { 1 } else { 0 });
            assert_eq!(count(&l, "connect.poll"), if reached(Fail::Connect) { b + 1 } else { 0 });
            assert_eq!(count(&l, "p.ready"), if reached(Fail::ProtocolReady) { c + 1 } else { 0 });
            assert_eq!(count(&l, "p.call"), if reached(Fail::Handshake) { 1 } else { 0 });
            assert_eq!(count(&l, "handshake.poll"), if reached(Fail::Handshake) { d + 1 } else { 0 });
            assert_eq!(notified, 0, "notify called although the connector is not shareable");
        } } } }
    }
}

/// the scenario of the brief: `poll_ready` of the transport answers Pending once (and wakes)
#[test]
fn connector_transport_ready_later() {
    let (pendings, out, _, l) = drive(1, 0, 0, 0, Fail::None, HttpProtocol::Http1, false);
    assert_eq!(pendings, 1);
    expect_outcome(Fail::None, &out, &l);
}
#[test]
fn connector_connect_fails() {
    let (_, out, _, l) = drive(1, 1, 0, 0, Fail::Connect, HttpProtocol::Http1, false);
    expect_outcome(Fail::Connect, &out, &l);
}
#[test]
fn connector_handshake_fails() {
    let (_, out, _, l) = drive(0, 1, 1, 1, Fail::Handshake, HttpProtocol::Http2, false);
    expect_outcome(Fail::Handshake, &out, &l);
}

/// cn.new.state, cn.new.version, cn.connect_for_request, cn.handshake_version, cn.handshake_on_connected_stream,
/// cn.keeps_inputs, cn.keeps_version, cn.keeps_protocol [C13,C06,C03]: the transport connects for the request given to `new`, the handshake gets
/// the version given to `new` and the stream the connect produced
#[test]
fn connector_data_flow() {
    for version in [HttpProtocol::Http1, HttpProtocol::Http2] {
        for a in 0..2 { for b in 0..2 { for c in 0..2 {
            let (_, out, _, l) = drive(a, b, c, 1, Fail::None, version, false);
            expect_outcome(Fail::None, &out, &l);
            let entries = l.lock().unwrap().clone();
            assert!(entries.iter().any(|e| e.starts_with("t.call http://example.test:8080/x ")), "transport connected for another request: {entries:?}");
            let call = entries.iter().find(|e| e.starts_with("p.call ")).expect("handshake started");
            assert!(call.starts_with(&format!("p.call {version:?} on ")), "handshake started with another version: {call}");
        } } }
    }
}

/// cn.notify_only_shared, cn.frame_shareable [C04]: notify is called exactly once when the connector is shareable (never otherwise: see
/// `connector_every_stage_pending_and_failing`), however many polls it takes, and never when an earlier stage fails
#[test]
fn connector_notify_once_when_shareable() {
    for d in 0..3 {
        let (_, out, notified, l) = drive(1, 1, 1, d, Fail::None, HttpProtocol::Http2, true);
        expect_outcome(Fail::None, &out, &l);
        assert_eq!(notified, 1, "notify calls for a shareable connector");
    }
    let (_, _, notified, _) = drive(1, 1, 0, 0, Fail::Connect, HttpProtocol::Http2, true);
    assert_eq!(notified, 0, "notify although the transport never connected");
}

/// cf.polled_live, cf.stays_live, cf.result_of_stage, cf.into_future [C17,C03]: the same through `IntoFuture` (awaiting the connector)
#[tokio::test]
async fn connector_future_awaited() {
    for fail in [Fail::None, Fail::TransportReady, Fail::Connect, Fail::ProtocolReady, Fail::Handshake] {
        let (t, p, l) = pair(1, 2, 1, 2, fail);
        let connector = Connector::new(t, p, "http://example.test/".into_request_parts(), HttpProtocol::Http1);
        let out = tokio::time::timeout(Duration::from_secs(5), tokio::spawn(async move { connector.await })).await
            .expect("the connector future hangs")
            .unwrap_or_else(|join| panic!("awaiting the connector panicked ({fail:?}): {join}"));
        expect_outcome(fail, &out, &l);
    }
}

fn request(uri: &str, version: http::Version) -> http::Request<crate::Body> {
    let mut r = http::Request::get(uri).body(crate::Body::empty()).unwrap();
    *r.version_mut() = version;
    r
}
const VERSIONS: [http::Version; 5] = [http::Version::HTTP_09, http::Version::HTTP_10, http::Version::HTTP_11, http::Version::HTTP_2, http::Version::HTTP_3];

/// runs the request in a task of its own: a panic shows as a JoinError, a hang as a time-out
async fn outcome<F>(what: String, fut: F) -> Result<http::StatusCode, String>
where F: Future<Output = Result<http::Response<crate::Body>, crate::client::Error>> + Send + 'static {
    match tokio::time::timeout(Duration::from_secs(5), tokio::spawn(fut)).await {
        Err(_) => panic!("{what}: the request hangs"),
        Ok(Err(join)) => panic!("{what}: the request made the client panic: {join}"),
        Ok(Ok(Ok(resp))) => Ok(resp.status()),
        Ok(Ok(Err(e))) => Err(format!("{e:?}")),
    }
}

/// cs.call.live, cs.call.state, cs.call.own_request, cs.call.protocol, cs.call.keeps_request, cs.proto_of_version, rf.* [C17,C03,C13,C06]:
/// the public `ConnectorService`: every scenario ends in a response or an error, for every version constant; the
/// handshake is asked for HTTP/2 exactly for HTTP_2 requests; the transport dials the request's own URI
#[tokio::test]
async fn connector_service_never_panics() {
    use tower::ServiceExt;
    for fail in [Fail::None, Fail::TransportReady, Fail::Connect, Fail::ProtocolReady, Fail::Handshake] {
        for version in VERSIONS {
            for pend in [0usize, 1, 2] {
                let (t, p, l) = pair(pend, pend, pend, pend, fail);
                let svc = tower::ServiceBuilder::new().layer(ConnectorLayer::new(t, p)).service(crate::service::RequestExecutor::new());
                let what = format!("ConnectorService {fail:?} {version:?} pending={pend}");
                let got = outcome(what.clone(), svc.oneshot(request("http://origin.test:81/path?q", version))).await;
                assert_eq!(got.is_ok(), fail == Fail::None, "{what}: {got:?}");
                let entries = l.lock().unwrap().clone();
                if fail == Fail::None || (fail as usize) >= (Fail::Connect as usize) {
                    assert!(entries.iter().any(|e| e.starts_with("t.call http://origin.test:81/path?q ")), "{what}: dialled for another request: {entries:?}");
                }
                if let Some(call) = entries.iter().find(|e| e.starts_with("p.call ")) {
                    let want = if version == http::Version::HTTP_2 { "p.call Http2 " } else { "p.call Http1 " };
                    assert!(call.starts_with(want), "{what}: handshake asked for the wrong protocol: {call}");
                }
            }
        }
    }
}

type PoolSvc = crate::client::pool::service::ConnectionPoolService<TestTransport, TestProtocol, crate::service::RequestExecutor<crate::client::pool::Pooled<MockSender, crate::Body>, crate::Body>, crate::Body>;
fn pool_service(t: TestTransport, p: TestProtocol, pooled: bool) -> PoolSvc {
    let svc = crate::client::pool::service::ConnectionPoolService::new(t, p, crate::service::RequestExecutor::new(),
        crate::client::pool::Config { idle_timeout: None, max_idle_per_host: 4, continue_after_preemption: false });
    if pooled { svc } else { svc.without_pool() }
}

/// ps.*, prf.* [C17,C03,C13]: the pooled service (with and without a pool): same scenarios, plus a URI that has no pool
/// key (relative URI) - answered with an error, never a panic
#[tokio::test]
async fn pool_service_never_panics() {
    use tower::ServiceExt;
    for pooled in [true, false] {
        for fail in [Fail::None, Fail::TransportReady, Fail::Connect, Fail::ProtocolReady, Fail::Handshake] {
            for version in VERSIONS {
                for pend in [0usize, 1] {
                    let (t, p, l) = pair(pend, pend, pend, pend, fail);
                    let what = format!("ConnectionPoolService pooled={pooled} {fail:?} {version:?} pending={pend}");
                    let got = outcome(what.clone(), pool_service(t, p, pooled).oneshot(request("http://origin.test:81/path?q", version))).await;
                    assert_eq!(got.is_ok(), fail == Fail::None, "{what}: {got:?}");
                    let entries = l.lock().unwrap().clone();
                    if let Some(call) = entries.iter().find(|e| e.starts_with("p.call ")) {
                        let want = if version == http::Version::HTTP_2 { "p.call Http2 " } else { "p.call Http1 " };
                        assert!(call.starts_with(want), "{what}: handshake asked for the wrong protocol: {call}");
                    }
                    if let Some(call) = entries.iter().find(|e| e.starts_with("t.call ")) {
                        assert!(call.starts_with("t.call http://origin.test:81/path?q "), "{what}: dialled for another request: {call}");
                    }
                }
            }
        }
        for uri in ["/relative/only", "*", "origin.test:81"] {
            let (t, p, l) = pair(0, 0, 0, 0, Fail::None);
            let what = format!("ConnectionPoolService pooled={pooled} uri={uri}");
            let got = outcome(what.clone(), pool_service(t, p, pooled).oneshot(request(uri, http::Version::HTTP_11))).await;
            assert!(got.is_err(), "{what}: a request without scheme / authority has no origin: {got:?}");
            assert_eq!(count(&l, "t.call"), 0, "{what}: dialled although the URI gives no pool key");
        }
    }
}

/// ps.key_of_request, ps.multiplex_iff_h2, ps.dials_for_request [C06,C13,C04]: two origins never share a connection; a second request to the same
/// origin reuses the idle connection; while an HTTP/2 dial is in flight a second HTTP/2 request to the origin waits for
/// it (one dial), two HTTP/1.1 requests dial twice
#[tokio::test]
async fn pool_service_key_and_multiplex() {
    use tower::ServiceExt;
    // sequential: a, b, a again
    let (t, p, l) = pair(0, 0, 0, 0, Fail::None);
    let svc = pool_service(t, p, true);
    for uri in ["http://a.test/", "http://b.test/", "http://a.test/again", "https://a.test/"] {
        let got = outcome(uri.to_string(), svc.clone().oneshot(request(uri, http::Version::HTTP_11))).await;
        assert!(got.is_ok(), "{uri}: {got:?}");
        tokio::task::yield_now().await;
    }
    let dials: Vec<String> = l.lock().unwrap().iter().filter(|e| e.starts_with("t.call")).cloned().collect();
    assert_eq!(dials.len(), 3, "a.test (http), b.test and a.test (https) are three origins; the second request to http://a.test reuses: {dials:?}");
    assert!(dials[1].starts_with("t.call http://b.test/"), "{dials:?}");
    assert!(dials[2].starts_with("t.call https://a.test/"), "{dials:?}");

    // concurrent: the first request's connect stays pending while the second is issued
    for (version, want_dials) in [(http::Version::HTTP_2, 1usize), (http::Version::HTTP_11, 2usize)] {
        let (t, p, l) = pair(0, 3, 0, 0, Fail::None);
        let svc = pool_service(t, p, true);
        let mut first = Box::pin(svc.clone().oneshot(request("http://a.test/1", version)));
        assert!(futures_util::poll!(&mut first).is_pending(), "{version:?}: the first request's connect is still pending");
        let mut second = Box::pin(svc.clone().oneshot(request("http://a.test/2", version)));
        assert!(futures_util::poll!(&mut second).is_pending(), "{version:?}: the second request cannot be served yet");
        assert_eq!(count(&l, "t.call"), want_dials, "{version:?}: number of dials after the first poll of two concurrent requests to one origin");
        let both = async move { (first.await, second.await) };
        let (r1, r2) = tokio::time::timeout(Duration::from_secs(5), both).await.expect("requests hang");
        assert!(r1.is_ok() && r2.is_ok(), "{version:?}: {:?} {:?}", r1.err(), r2.err());
        assert_eq!(count(&l, "t.call"), want_dials, "{version:?}: number of dials for two concurrent requests to one origin");
    }
}

// ======================= round 4: the request path of ConnectionPoolService with contract-honouring connections =======================

/// marker put into every response by `OriginConn`: the transport stream the request was sent on
#[derive(Debug, Clone, Copy, PartialEq, Eq)]
struct ServedOn(crate::client::conn::stream::mock::StreamID);

/// a connection that honours the `PoolableConnection` contract (`MockSender::reuse` hands out a clone even of an
/// exclusive connection): exclusive for HTTP/1, multiplexed for HTTP/2; every response names the stream it went over
#[derive(Debug)]
struct OriginConn { stream: MockStream, share: bool }
impl crate::client::conn::Connection<crate::Body> for OriginConn {
    type ResBody = crate::Body;
    type Error = std::io::Error;
    type Future = std::future::Ready<Result<http::Response<crate::Body>, Self::Error>>;
    fn send_request(&mut self, request: http::Request<crate::Body>) -> Self::Future {
        let mut resp = http::Response::new(request.into_body());
        resp.extensions_mut().insert(ServedOn(self.stream.id()));
        std::future::ready(Ok(resp))
    }
    fn poll_ready(&mut self, _cx: &mut Context<'_>) -> Poll<Result<(), Self::Error>> { Poll::Ready(Ok(())) }
    fn version(&self) -> http::Version { if self.share { http::Version::HTTP_2 } else { http::Version::HTTP_11 } }
}
impl crate::client::pool::PoolableConnection<crate::Body> for OriginConn {
    fn is_open(&self) -> bool { self.stream.is_open() }
    fn can_share(&self) -> bool { self.share }
    fn reuse(&mut self) -> Option<Self> { if self.share { Some(Self { stream: self.stream.clone(), share: true }) } else { None } }
}
#[derive(Debug, Clone)]
struct OriginProtocol { log: Log }
impl tower::Service<ProtocolRequest<MockStream, crate::Body>> for OriginProtocol {
    type Response = OriginConn;
    type Error = ConnErr;
    type Future = std::future::Ready<Result<OriginConn, ConnErr>>;
    fn poll_ready(&mut self, _cx: &mut Context<'_>) -> Poll<Result<(), Self::Error>> { Poll::Ready(Ok(())) }
    fn call(&mut self, req: ProtocolRequest<MockStream, crate::Body>) -> Self::Future {
        log(&self.log, format!("p.call {:?} on {:?}", req.version, req.transport.id()));
        std::future::ready(Ok(OriginConn { share: req.version == HttpProtocol::Http2, stream: req.transport }))
    }
}
type OriginSvc = crate::client::pool::service::ConnectionPoolService<TestTransport, OriginProtocol, crate::service::RequestExecutor<crate::client::pool::Pooled<OriginConn, crate::Body>, crate::Body>, crate::Body>;
fn origin_service(connect_pending: usize) -> (OriginSvc, Log) {
    let (t, _, l) = pair(0, connect_pending, 0, 0, Fail::None);
    let svc = crate::client::pool::service::ConnectionPoolService::new(t, OriginProtocol { log: l.clone() }, crate::service::RequestExecutor::new(),
        crate::client::pool::Config { idle_timeout: None, max_idle_per_host: 4, continue_after_preemption: false });
    (svc, l)
}
/// sends one request, lets the hand-back task of the connection run, returns the stream the request went over
async fn send_on(svc: &OriginSvc, uri: &str, version: http::Version) -> crate::client::conn::stream::mock::StreamID {
    use tower::ServiceExt;
    let resp = tokio::time::timeout(Duration::from_secs(5), svc.clone().oneshot(request(uri, version))).await
        .unwrap_or_else(|_| panic!("{uri} {version:?}: the request hangs"))
        .unwrap_or_else(|e| panic!("{uri} {version:?}: {e:?}"));
    let on = resp.extensions().get::<ServedOn>().expect("response without the connection's marker").0;
    drop(resp);
    for _ in 0..8 { tokio::task::yield_now().await; }
    on
}
/// (scheme, host, effective port) of an absolute URI: what "origin" means in C06
fn origin_of(uri: &str) -> (String, String, u16) {
    let u: http::Uri = uri.parse().unwrap();
    let scheme = u.scheme_str().unwrap().to_string();
    let port = u.port_u16().unwrap_or(if scheme == "https" { 443 } else { 80 });
    (scheme, u.host().unwrap().to_string(), port)
}
/// the URI the stream `id` was dialled for, from the transport's log
fn dialled_for(l: &Log, id: crate::client::conn::stream::mock::StreamID) -> String {
    let prefix = format!("t.stream {:?} ", id);
    l.lock().unwrap().iter().find_map(|e| e.strip_prefix(&prefix).map(|u| u.to_string()))
        .unwrap_or_else(|| panic!("request served on stream {id:?}, which this service's transport never dialled"))
}

/// ps.key_of_request, ps.checkout_made, ps.detached_without_pool [C04,C06,C03]: a service that HAS a pool sends every
/// request through it, whatever the request's HTTP version says: requests marked HTTP/0.9, 1.0 and 1.1 to one origin,
/// one after the other, all go over the one connection the first of them dialled (each finds it idle and leaves it
/// idle again); without a pool every request dials
#[tokio::test]
async fn pool_service_every_h1_version_uses_the_pool() {
    use http::Version as V;
    for order in [[V::HTTP_11, V::HTTP_10, V::HTTP_09, V::HTTP_11, V::HTTP_10, V::HTTP_11],
                  [V::HTTP_10, V::HTTP_11, V::HTTP_09, V::HTTP_10, V::HTTP_09, V::HTTP_11],
                  [V::HTTP_09, V::HTTP_09, V::HTTP_10, V::HTTP_10, V::HTTP_11, V::HTTP_11]] {
        let (svc, l) = origin_service(0);
        let mut first = None;
        for (i, version) in order.into_iter().enumerate() {
            let on = send_on(&svc, "http://one.test/x", version).await;
            let f = *first.get_or_insert(on);
            assert_eq!(on, f, "request {i} ({version:?}) of {order:?} to one origin was not sent on the idle connection the pool held for it");
            assert_eq!(count(&l, "t.call"), 1, "request {i} ({version:?}) of {order:?} dialled although an idle connection to the origin was pooled");
        }
    }
    // no pool: nothing is kept, every request dials its own connection
    let (svc, l) = origin_service(0);
    let svc = svc.without_pool();
    let a = send_on(&svc, "http://one.test/x", V::HTTP_11).await;
    let b = send_on(&svc, "http://one.test/x", V::HTTP_11).await;
    assert_ne!(a, b, "a service without a pool reused a connection");
    assert_eq!(count(&l, "t.call"), 2);
}

/// ps.key_of_request, ps.dials_for_request [C06]: a request is only ever sent on a connection that was dialled for its own
/// origin (scheme, host, effective port).  Origins that differ only in the port - also when the explicit port is the
/// OTHER scheme's default - never share; sequentially (idle reuse), and while an HTTP/2 dial is in flight (waiting)
#[tokio::test]
async fn pool_service_never_across_ports() {
    use tower::ServiceExt;
    let groups: [&[&str]; 4] = [
        &["http://h.test/", "http://h.test:443/", "http://h.test:80/", "http://h.test:8080/"],
        &["https://h.test/", "https://h.test:80/", "https://h.test:443/", "https://h.test:8443/"],
        &["http://h.test:443/", "https://h.test:443/", "https://h.test/", "http://h.test/"],
        &["https://h.test:80/", "http://h.test:80/", "http://h.test/", "https://h.test/"],
    ];
    for version in [http::Version::HTTP_11, http::Version::HTTP_2, http::Version::HTTP_10] {
        for group in groups {
            for rot in 0..group.len() {
                let (svc, l) = origin_service(0);
                // two rounds: the second finds every origin's connection idle (HTTP/1) or shared (HTTP/2) in the pool
                for round in 0..2 {
                    for k in 0..group.len() {
                        let uri = group[(k + rot) % group.len()];
                        let on = send_on(&svc, uri, version).await;
                        let dialled = dialled_for(&l, on);
                        assert_eq!(origin_of(&dialled), origin_of(uri),
                            "round {round}, {version:?}: the request for {uri} was sent on a connection that was opened for {dialled}");
                    }
                }
            }
        }
    }
    // concurrent: while the HTTP/2 dial for one origin is in flight, a request for the other origin does not wait for it
    for (u1, u2) in [("http://h.test/1", "http://h.test:443/2"), ("http://h.test:443/1", "http://h.test/2"),
                     ("https://h.test/1", "https://h.test:80/2"), ("https://h.test:80/1", "https://h.test/2")] {
        let (svc, l) = origin_service(3);
        let mut first = Box::pin(svc.clone().oneshot(request(u1, http::Version::HTTP_2)));
        assert!(futures_util::poll!(&mut first).is_pending());
        let mut second = Box::pin(svc.clone().oneshot(request(u2, http::Version::HTTP_2)));
        assert!(futures_util::poll!(&mut second).is_pending());
        assert_eq!(count(&l, "t.call"), 2, "{u2} waits for the connection that is being opened for {u1}");
        let both = async move { (first.await, second.await) };
        let (r1, r2) = tokio::time::timeout(Duration::from_secs(5), both).await.expect("requests hang");
        for (uri, r) in [(u1, r1), (u2, r2)] {
            let on = r.unwrap_or_else(|e| panic!("{uri}: {e:?}")).extensions().get::<ServedOn>().expect("marker").0;
            let dialled = dialled_for(&l, on);
            assert_eq!(origin_of(&dialled), origin_of(uri), "the request for {uri} was sent on a connection that was opened for {dialled}");
        }
    }
}
