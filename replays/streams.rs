// Replay templates + bounded stand-ins for the units `streams` / `fwdimpls` (C18): concrete byte-exactness scenarios
// against the REAL crate.  Compiled inside `crate::stream::verif_replays_streams` (feature verif-hooks, test builds).
//
// Every adapter that can be built in a test is driven with: writes split into every chunk size (partial writes
// honoured), reads into buffers of several capacities, a ZERO-capacity read before every real read, vectored writes
// whose slices are cut at every boundary into a pipe of every small capacity (so that the pipe fills exactly at a slice
// boundary), Pending / Err / short counts / end-of-stream from a scripted inner transport.  All awaiting templates
// carry time-outs (a broken tree must fail, not hang).
use std::collections::VecDeque;
use std::future::poll_fn;
use std::io::{self, IoSlice};
use std::pin::Pin;
use std::sync::{Arc, Mutex};
use std::task::{Context, Poll};
use std::time::Duration;

use tokio::io::{AsyncRead, AsyncWrite, ReadBuf};

use crate::client::conn::stream::Stream as ClientStream;
use crate::info::{ConnectionInfo, HasConnectionInfo};
use crate::server::conn::Stream as ServerStream;
use crate::stream::duplex::{DuplexAddr, DuplexStream};
use crate::stream::{Braid, TcpStream, TlsBraid, UnixStream};

const T: Duration = Duration::from_secs(20);

/// n pairwise different-looking bytes: any duplication, loss or reordering of a run of bytes changes the sequence
fn data(n: usize) -> Vec<u8> {
    (0..n).map(|i| ((i * 7 + 3) % 251) as u8).collect()
}

/// one poll, result handed back as a value
async fn once<R>(mut f: impl FnMut(&mut Context<'_>) -> Poll<R>) -> Poll<R> {
    poll_fn(|cx| Poll::Ready(f(cx))).await
}

/// Write `data` through `tx` in pieces of `wchunk` bytes (every piece is offered until it has been accepted
/// completely: short counts are honoured), then flush and shut down; concurrently read from `rx` with a buffer of
/// `rcap` bytes until end-of-stream, issuing a zero-capacity read before every real read and re-using a partly
/// filled ReadBuf.  Returns what the reader saw.
async fn transfer<W, R>(tx: &mut W, rx: &mut R, data: &[u8], wchunk: usize, rcap: usize) -> Vec<u8>
where
    W: AsyncWrite + Unpin,
    R: AsyncRead + Unpin,
{
    let writer = async {
        for piece in data.chunks(wchunk.max(1)) {
            let mut off = 0;
            while off < piece.len() {
                let n = poll_fn(|cx| Pin::new(&mut *tx).poll_write(cx, &piece[off..])).await.expect("write");
                assert!(n > 0 && n <= piece.len() - off, "poll_write returned {n} for {} bytes", piece.len() - off);
                off += n;
            }
            // a flush in the middle of the stream is a flush - nothing ends, nothing is lost
            poll_fn(|cx| Pin::new(&mut *tx).poll_flush(cx)).await.expect("flush");
        }
        poll_fn(|cx| Pin::new(&mut *tx).poll_flush(cx)).await.expect("flush");
        poll_fn(|cx| Pin::new(&mut *tx).poll_shutdown(cx)).await.expect("shutdown");
    };
    let reader = async {
        let mut got = Vec::new();
        let mut eofs = 0;
        while eofs < 2 {
            // a read that cannot take anything: Ready(Ok) with nothing, or Pending - and it must not disturb the stream
            let mut none = [0u8; 0];
            let mut zb = ReadBuf::new(&mut none);
            match once(|cx| Pin::new(&mut *rx).poll_read(cx, &mut zb)).await {
                Poll::Ready(Ok(())) => assert!(zb.filled().is_empty()),
                Poll::Ready(Err(e)) => panic!("zero-capacity read failed: {e}"),
                Poll::Pending => {}
            }
            // real reads, twice into the same ReadBuf (the second starts at a non-zero filled position)
            let mut storage = vec![0u8; rcap.max(1) * 2];
            let mut rb = ReadBuf::new(&mut storage);
            for _half in 0..2 {
                let before = rb.filled().to_vec();
                let n = {
                    let mut lim = rb.take(rcap.max(1));
                    poll_fn(|cx| Pin::new(&mut *rx).poll_read(cx, &mut lim)).await.expect("read");
                    lim.filled().len()
                };
                // `take` hands out a sub-buffer over the unfilled part: account for what it received
                rb.advance(n);
                assert_eq!(&rb.filled()[..before.len()], &before[..], "previously filled bytes changed");
                if n == 0 {
                    eofs += 1; // end-of-stream: must stay end-of-stream (asked twice)
                    break;
                }
            }
            got.extend_from_slice(rb.filled());
        }
        got
    };
    let (_, got) = tokio::time::timeout(T, async { tokio::join!(writer, reader) }).await.expect("transfer timed out");
    got
}

/// the sweep every adapter pair goes through
async fn sweep<W, R, F, Fut>(what: &str, mut mk: F)
where
    W: AsyncWrite + Unpin,
    R: AsyncRead + Unpin,
    F: FnMut() -> Fut,
    Fut: std::future::Future<Output = (W, R)>,
{
    let d = data(97);
    for wchunk in [1usize, 2, 3, 7, 64, 97] {
        for rcap in [1usize, 2, 5, 64] {
            let (mut tx, mut rx) = mk().await;
            let got = transfer(&mut tx, &mut rx, &d, wchunk, rcap).await;
            assert_eq!(got, d, "{what}: write chunk {wchunk}, read capacity {rcap}");
        }
    }
    // nothing written: end-of-stream only
    let (mut tx, mut rx) = mk().await;
    assert!(transfer(&mut tx, &mut rx, &[], 1, 8).await.is_empty(), "{what}: empty stream");
}

/// Vectored writes of `d` cut into three slices at (i, j) through a pipe holding `cap` bytes; the reader is drained
/// only when the writer reports Pending or after each successful call.  What the reader saw must be `d`.
async fn vectored_case<W, R>(tx: &mut W, rx: &mut R, d: &[u8], i: usize, j: usize) -> Vec<u8>
where
    W: AsyncWrite + Unpin,
    R: AsyncRead + Unpin,
{
    let cuts = [0, i, j, d.len()];
    let mut done = 0usize; // bytes the writer has been told were accepted
    let mut got = Vec::new();
    for _round in 0..(4 * d.len() + 8) {
        if done == d.len() {
            break;
        }
        // everything outstanding, with the original slice boundaries
        let mut slices = Vec::new();
        for k in 0..3 {
            let (a, b) = (cuts[k].max(done), cuts[k + 1]);
            if a < b {
                slices.push(IoSlice::new(&d[a..b]));
            }
        }
        match once(|cx| Pin::new(&mut *tx).poll_write_vectored(cx, &slices)).await {
            Poll::Ready(Ok(n)) => {
                assert!(n > 0 && done + n <= d.len(), "vectored write returned {n} with {} outstanding", d.len() - done);
                done += n;
            }
            Poll::Ready(Err(e)) => panic!("vectored write failed: {e}"),
            Poll::Pending => {}
        }
        // drain what is there right now
        loop {
            let mut storage = [0u8; 5];
            let mut rb = ReadBuf::new(&mut storage);
            match once(|cx| Pin::new(&mut *rx).poll_read(cx, &mut rb)).await {
                Poll::Ready(Ok(())) if !rb.filled().is_empty() => got.extend_from_slice(rb.filled()),
                Poll::Ready(Err(e)) => panic!("read failed: {e}"),
                _ => break,
            }
        }
    }
    assert_eq!(done, d.len(), "writer made no progress");
    got
}

/// sockets: the same slices, written with awaiting vectored writes while a concurrent reader collects to end-of-stream
async fn vectored_transfer<W, R>(tx: &mut W, rx: &mut R, d: &[u8], i: usize, j: usize) -> Vec<u8>
where
    W: AsyncWrite + Unpin,
    R: AsyncRead + Unpin,
{
    let cuts = [0, i, j, d.len()];
    let writer = async {
        let mut done = 0usize;
        while done < d.len() {
            let mut slices = Vec::new();
            for k in 0..3 {
                let (a, b) = (cuts[k].max(done), cuts[k + 1]);
                if a < b {
                    slices.push(IoSlice::new(&d[a..b]));
                }
            }
            let n = poll_fn(|cx| Pin::new(&mut *tx).poll_write_vectored(cx, &slices)).await.expect("vectored write");
            assert!(n > 0 && done + n <= d.len());
            done += n;
        }
        poll_fn(|cx| Pin::new(&mut *tx).poll_shutdown(cx)).await.expect("shutdown");
    };
    let mut nowhere = tokio::io::sink();
    let reader = transfer(&mut nowhere, rx, &[], 1, 16);
    let (_, got) = tokio::time::timeout(T, async { tokio::join!(writer, reader) }).await.expect("vectored transfer timed out");
    got
}

/// sockets under back-pressure: nobody reads while the writer (plain or vectored, slices of 300 KiB + 1, so that the last accepted write is a partial one) goes on until the
/// kernel refuses; what it was TOLD was accepted must be exactly what a reader then finds, in order
async fn socket_backpressure<W, R>(what: &str, tx: &mut W, rx: &mut R, vectored: bool)
where
    W: AsyncWrite + Unpin,
    R: AsyncRead + Unpin,
{
    let d = data(8 << 20);
    let mut done = 0usize;
    // the first write awaits write readiness; afterwards readiness stays cached until the kernel says WouldBlock
    let mut first = true;
    loop {
        let rest = &d[done..];
        let k = 300 * 1024 + 1;
        let slices: Vec<IoSlice<'_>> = rest.chunks(k).take(3).map(IoSlice::new).collect();
        let r = if first {
            Poll::Ready(if vectored {
                poll_fn(|cx| Pin::new(&mut *tx).poll_write_vectored(cx, &slices)).await
            } else {
                poll_fn(|cx| Pin::new(&mut *tx).poll_write(cx, &rest[..k.min(rest.len())])).await
            })
        } else if vectored {
            once(|cx| Pin::new(&mut *tx).poll_write_vectored(cx, &slices)).await
        } else {
            once(|cx| Pin::new(&mut *tx).poll_write(cx, &rest[..k.min(rest.len())])).await
        };
        first = false;
        match r {
            Poll::Ready(Ok(n)) => {
                assert!(n > 0 && n <= rest.len());
                done += n;
            }
            Poll::Ready(Err(e)) => panic!("{what}: write failed: {e}"),
            Poll::Pending => break,
        }
        assert!(done < d.len(), "{what}: the kernel took 8 MiB without a reader");
    }
    tokio::time::timeout(T, poll_fn(|cx| Pin::new(&mut *tx).poll_shutdown(cx))).await.expect("timed out").expect("shutdown");
    let mut nowhere = tokio::io::sink();
    let got = transfer(&mut nowhere, rx, &[], 1, 64 * 1024).await;
    assert_eq!(got.len(), done, "{what}: bytes reported as written vs bytes that arrived (vectored: {vectored})");
    assert!(got == d[..done], "{what}: content under back-pressure (vectored: {vectored})");
}

async fn vectored_sweep<W, R, F>(what: &str, mut mk: F)
where
    W: AsyncWrite + Unpin,
    R: AsyncRead + Unpin,
    F: FnMut(usize) -> (W, R),
{
    let d = data(9);
    for cap in 1..=10usize {
        for i in 0..=d.len() {
            for j in i..=d.len() {
                let (mut tx, mut rx) = mk(cap);
                let got = tokio::time::timeout(T, vectored_case(&mut tx, &mut rx, &d, i, j)).await.expect("timed out");
                assert_eq!(got, d, "{what}: pipe capacity {cap}, slices cut at {i} and {j}");
            }
        }
    }
}

/// Pending on an empty / full pipe passes through and loses nothing; an error passes through
async fn pending_and_error<W, R>(what: &str, mut tx: W, mut rx: R, cap: usize)
where
    W: AsyncWrite + Unpin,
    R: AsyncRead + Unpin,
{
    let d = data(cap + 4);
    // empty pipe: read is Pending, buffer untouched
    let mut storage = [0u8; 8];
    let mut rb = ReadBuf::new(&mut storage);
    assert!(once(|cx| Pin::new(&mut rx).poll_read(cx, &mut rb)).await.is_pending(), "{what}: read of an empty pipe");
    assert!(rb.filled().is_empty());
    // fill the pipe: short count, then Pending
    let n = match once(|cx| Pin::new(&mut tx).poll_write(cx, &d)).await {
        Poll::Ready(Ok(n)) => n,
        other => panic!("{what}: first write {other:?}"),
    };
    assert_eq!(n, cap, "{what}: short count of a write larger than the pipe");
    assert!(once(|cx| Pin::new(&mut tx).poll_write(cx, &d[n..])).await.is_pending(), "{what}: write into a full pipe");
    // zero-capacity read of a non-empty pipe: nothing is taken
    let mut none = [0u8; 0];
    let mut zb = ReadBuf::new(&mut none);
    match once(|cx| Pin::new(&mut rx).poll_read(cx, &mut zb)).await {
        Poll::Ready(Ok(())) | Poll::Pending => {}
        Poll::Ready(Err(e)) => panic!("{what}: zero-capacity read: {e}"),
    }
    let mut got = Vec::new();
    let mut off = n;
    for _ in 0..64 {
        let mut storage = [0u8; 3];
        let mut rb = ReadBuf::new(&mut storage);
        if let Poll::Ready(r) = once(|cx| Pin::new(&mut rx).poll_read(cx, &mut rb)).await {
            r.unwrap();
            got.extend_from_slice(rb.filled());
        }
        if off < d.len() {
            if let Poll::Ready(r) = once(|cx| Pin::new(&mut tx).poll_write(cx, &d[off..])).await {
                off += r.unwrap();
            }
        }
        if got.len() == d.len() {
            break;
        }
    }
    assert_eq!(got, d, "{what}: bytes after Pending");
    // the reader goes away: the error of the inner pipe is what the writer sees
    drop(rx);
    match once(|cx| Pin::new(&mut tx).poll_write(cx, &d)).await {
        Poll::Ready(Err(e)) => assert_eq!(e.kind(), io::ErrorKind::BrokenPipe, "{what}"),
        other => panic!("{what}: write to a closed pipe: {other:?}"),
    }
}

// ------------------------------------------------------------------ constructors
fn duplex(cap: usize) -> (DuplexStream, DuplexStream) {
    DuplexStream::new(cap)
}
async fn tcp_pair() -> (TcpStream, TcpStream) {
    let listener = tokio::net::TcpListener::bind("127.0.0.1:0").await.unwrap();
    let addr = listener.local_addr().unwrap();
    let (c, s) = tokio::join!(tokio::net::TcpStream::connect(addr), listener.accept());
    let (s, peer) = s.unwrap();
    (TcpStream::client(c.unwrap()), TcpStream::server(s, peer))
}
fn unix_pair() -> (UnixStream, UnixStream) {
    UnixStream::pair().unwrap()
}

// ------------------------------------------------------------------ DuplexStream
/// fwd.duplex.* [C18]
#[tokio::test]
async fn duplex_byte_exact() {
    // tokio's cooperative budget would turn every pipe operation into Pending after 128 polls without a yield
    tokio::task::unconstrained(duplex_byte_exact_body()).await
}
async fn duplex_byte_exact_body() {
    for cap in [1usize, 3, 8, 64, 1024] {
        sweep(&format!("DuplexStream({cap})"), || async move { duplex(cap) }).await;
    }
    for cap in [1usize, 4, 9] {
        let (a, b) = duplex(cap);
        pending_and_error("DuplexStream", a, b, cap).await;
    }
}

/// impl.duplex.write / fwd.duplex.write [C18]: vectored writes into a pipe that fills exactly at a slice boundary
#[tokio::test]
async fn duplex_vectored_boundaries() {
    // tokio's cooperative budget would turn every pipe operation into Pending after 128 polls without a yield
    tokio::task::unconstrained(duplex_vectored_boundaries_body()).await
}
async fn duplex_vectored_boundaries_body() {
    vectored_sweep("DuplexStream", duplex).await;
    let (a, _b) = duplex(8);
    assert!(!a.is_write_vectored(), "DuplexStream wraps a pipe without vectored writes");
}

// ------------------------------------------------------------------ TcpStream / UnixStream
/// fwd.tcp.* / impl.tcp.* [C18]
#[tokio::test]
async fn tcp_byte_exact() {
    // tokio's cooperative budget would turn every pipe operation into Pending after 128 polls without a yield
    tokio::task::unconstrained(tcp_byte_exact_body()).await
}
async fn tcp_byte_exact_body() {
    sweep("TcpStream", tcp_pair).await;
    // vectored writes: slices cut at every boundary, read concurrently
    let d = data(23);
    for i in 0..=d.len() {
        for j in [i, (i + 5).min(d.len()), d.len()] {
            let (mut tx, mut rx) = tcp_pair().await;
            let got = vectored_transfer(&mut tx, &mut rx, &d, i, j).await;
            assert_eq!(got, d, "TcpStream vectored, cut at {i}, {j}");
        }
    }
    for vectored in [false, true] {
        let (mut tx, mut rx) = tcp_pair().await;
        socket_backpressure("TcpStream", &mut tx, &mut rx, vectored).await;
    }
    let (a, _b) = tcp_pair().await;
    assert_eq!(a.is_write_vectored(), AsyncWrite::is_write_vectored(std::ops::Deref::deref(&a)));
}

/// fwd.unix.* / impl.unix.* [C18]
#[tokio::test]
async fn unix_byte_exact() {
    // tokio's cooperative budget would turn every pipe operation into Pending after 128 polls without a yield
    tokio::task::unconstrained(unix_byte_exact_body()).await
}
async fn unix_byte_exact_body() {
    sweep("UnixStream", || async { unix_pair() }).await;
    let d = data(23);
    for i in 0..=d.len() {
        for j in [i, (i + 5).min(d.len()), d.len()] {
            let (mut tx, mut rx) = unix_pair();
            let got = vectored_transfer(&mut tx, &mut rx, &d, i, j).await;
            assert_eq!(got, d, "UnixStream vectored, cut at {i}, {j}");
        }
    }
    for vectored in [false, true] {
        let (mut tx, mut rx) = unix_pair();
        socket_backpressure("UnixStream", &mut tx, &mut rx, vectored).await;
    }
    let (a, _b) = unix_pair();
    assert_eq!(a.is_write_vectored(), AsyncWrite::is_write_vectored(std::ops::Deref::deref(&a)));
}

// ------------------------------------------------------------------ Braid (every arm)
/// fwd.braid.* / impl.braid.* [C18]
#[tokio::test]
async fn braid_byte_exact() {
    // tokio's cooperative budget would turn every pipe operation into Pending after 128 polls without a yield
    tokio::task::unconstrained(braid_byte_exact_body()).await
}
async fn braid_byte_exact_body() {
    for cap in [1usize, 3, 64] {
        sweep("Braid::Duplex", || async move {
            let (a, b) = duplex(cap);
            (Braid::from(a), Braid::from(b))
        })
        .await;
    }
    sweep("Braid::Tcp", || async {
        let (a, b) = tcp_pair().await;
        (Braid::from(a), Braid::from(b))
    })
    .await;
    sweep("Braid::Unix", || async {
        let (a, b) = unix_pair();
        (Braid::from(a), Braid::from(b))
    })
    .await;
    vectored_sweep("Braid::Duplex", |cap| {
        let (a, b) = duplex(cap);
        (Braid::from(a), Braid::from(b))
    })
    .await;
    for cap in [1usize, 4] {
        let (a, b) = duplex(cap);
        pending_and_error("Braid::Duplex", Braid::from(a), Braid::from(b), cap).await;
    }
}

// ------------------------------------------------------------------ scripted inner transport for the generic wrappers
#[derive(Debug, Clone, PartialEq)]
enum Call {
    Read { filled: Vec<u8>, room: usize },
    Write(Vec<u8>),
    Flush,
    Shutdown,
}
#[derive(Debug, Clone)]
enum Out {
    Bytes(Vec<u8>),
    Count(usize),
    Done,
    Pending,
    Fail(io::ErrorKind),
}
#[derive(Debug, Default)]
struct ProbeState {
    calls: Vec<Call>,
    script: VecDeque<Out>,
}
/// records every call with its arguments and answers from a script
#[derive(Debug, Clone)]
struct Probe(Arc<Mutex<ProbeState>>);
impl Probe {
    fn new(script: Vec<Out>) -> (Self, Arc<Mutex<ProbeState>>) {
        let st = Arc::new(Mutex::new(ProbeState { calls: vec![], script: script.into() }));
        (Probe(st.clone()), st)
    }
    fn next(&self, c: Call) -> Out {
        let mut st = self.0.lock().unwrap();
        st.calls.push(c);
        st.script.pop_front().expect("probe polled more often than scripted")
    }
}
impl AsyncRead for Probe {
    fn poll_read(self: Pin<&mut Self>, _cx: &mut Context<'_>, buf: &mut ReadBuf<'_>) -> Poll<io::Result<()>> {
        match self.next(Call::Read { filled: buf.filled().to_vec(), room: buf.remaining() }) {
            Out::Bytes(b) => {
                buf.put_slice(&b);
                Poll::Ready(Ok(()))
            }
            Out::Done => Poll::Ready(Ok(())),
            Out::Pending => Poll::Pending,
            Out::Fail(k) => Poll::Ready(Err(k.into())),
            Out::Count(_) => unreachable!(),
        }
    }
}
impl AsyncWrite for Probe {
    fn poll_write(self: Pin<&mut Self>, _cx: &mut Context<'_>, buf: &[u8]) -> Poll<io::Result<usize>> {
        match self.next(Call::Write(buf.to_vec())) {
            Out::Count(n) => Poll::Ready(Ok(n)),
            Out::Pending => Poll::Pending,
            Out::Fail(k) => Poll::Ready(Err(k.into())),
            _ => unreachable!(),
        }
    }
    fn poll_flush(self: Pin<&mut Self>, _cx: &mut Context<'_>) -> Poll<io::Result<()>> {
        match self.next(Call::Flush) {
            Out::Done => Poll::Ready(Ok(())),
            Out::Pending => Poll::Pending,
            Out::Fail(k) => Poll::Ready(Err(k.into())),
            _ => unreachable!(),
        }
    }
    fn poll_shutdown(self: Pin<&mut Self>, _cx: &mut Context<'_>) -> Poll<io::Result<()>> {
        match self.next(Call::Shutdown) {
            Out::Done => Poll::Ready(Ok(())),
            Out::Pending => Poll::Pending,
            Out::Fail(k) => Poll::Ready(Err(k.into())),
            _ => unreachable!(),
        }
    }
}
impl HasConnectionInfo for Probe {
    type Addr = DuplexAddr;
    fn info(&self) -> ConnectionInfo<DuplexAddr> {
        ConnectionInfo { local_addr: DuplexAddr::new(), remote_addr: DuplexAddr::new() }
    }
}
fn kind<X: std::fmt::Debug>(p: Poll<io::Result<X>>) -> String {
    match p {
        Poll::Pending => "pending".into(),
        Poll::Ready(Ok(x)) => format!("ok {x:?}"),
        Poll::Ready(Err(e)) => format!("err {:?}", e.kind()),
    }
}

/// One scripted conversation with a wrapper built over a `Probe`: every result (bytes, short count, Pending, error,
/// end-of-stream) must come back unchanged and the probe must have seen exactly one call per call, with the very
/// arguments the wrapper was given.
async fn forwarding_conversation<W, F>(what: &str, mk: F)
where
    W: AsyncRead + AsyncWrite + Unpin,
    F: FnOnce(Probe) -> W,
{
    use io::ErrorKind::*;
    let script = vec![
        Out::Bytes(vec![1, 2, 3]),     // read into an empty buffer
        Out::Pending,                  // read: Pending
        Out::Bytes(vec![4, 5]),        // read into the partly filled buffer
        Out::Done,                     // read: zero capacity
        Out::Fail(ConnectionReset),    // read: error
        Out::Done,                     // read: end-of-stream
        Out::Done,                     // ... twice
        Out::Count(2),                 // write: short count
        Out::Pending,                  // write: Pending
        Out::Count(0),                 // write: zero
        Out::Fail(BrokenPipe),         // write: error
        Out::Count(3),                 // vectored write: first non-empty slice, all of it
        Out::Count(1),                 // vectored write: short count
        Out::Pending,                  // vectored write: Pending
        Out::Pending,                  // flush
        Out::Done,                     // flush
        Out::Fail(TimedOut),           // flush
        Out::Pending,                  // shutdown
        Out::Fail(NotConnected),       // shutdown
        Out::Done,                     // shutdown
    ];
    let (probe, st) = Probe::new(script);
    let mut w = mk(probe);
    let mut want = Vec::new();

    // ---- reads
    let mut storage = [0u8; 8];
    let mut rb = ReadBuf::new(&mut storage);
    assert_eq!(kind(once(|cx| Pin::new(&mut w).poll_read(cx, &mut rb)).await), "ok ()", "{what}");
    assert_eq!(rb.filled(), &[1, 2, 3]);
    want.push(Call::Read { filled: vec![], room: 8 });
    assert_eq!(kind(once(|cx| Pin::new(&mut w).poll_read(cx, &mut rb)).await), "pending", "{what}");
    assert_eq!(rb.filled(), &[1, 2, 3]);
    want.push(Call::Read { filled: vec![1, 2, 3], room: 5 });
    assert_eq!(kind(once(|cx| Pin::new(&mut w).poll_read(cx, &mut rb)).await), "ok ()", "{what}");
    assert_eq!(rb.filled(), &[1, 2, 3, 4, 5]);
    want.push(Call::Read { filled: vec![1, 2, 3], room: 5 });
    let mut none = [0u8; 0];
    let mut zb = ReadBuf::new(&mut none);
    assert_eq!(kind(once(|cx| Pin::new(&mut w).poll_read(cx, &mut zb)).await), "ok ()", "{what}: zero-capacity read");
    want.push(Call::Read { filled: vec![], room: 0 });
    assert_eq!(kind(once(|cx| Pin::new(&mut w).poll_read(cx, &mut rb)).await), "err ConnectionReset", "{what}");
    want.push(Call::Read { filled: vec![1, 2, 3, 4, 5], room: 3 });
    for _ in 0..2 {
        assert_eq!(kind(once(|cx| Pin::new(&mut w).poll_read(cx, &mut rb)).await), "ok ()", "{what}: end-of-stream");
        assert_eq!(rb.filled(), &[1, 2, 3, 4, 5]);
        want.push(Call::Read { filled: vec![1, 2, 3, 4, 5], room: 3 });
    }
    // ---- writes
    let d = data(6);
    assert_eq!(kind(once(|cx| Pin::new(&mut w).poll_write(cx, &d)).await), "ok 2", "{what}");
    want.push(Call::Write(d.clone()));
    assert_eq!(kind(once(|cx| Pin::new(&mut w).poll_write(cx, &d[2..])).await), "pending", "{what}");
    want.push(Call::Write(d[2..].to_vec()));
    assert_eq!(kind(once(|cx| Pin::new(&mut w).poll_write(cx, &[])).await), "ok 0", "{what}");
    want.push(Call::Write(vec![]));
    assert_eq!(kind(once(|cx| Pin::new(&mut w).poll_write(cx, &d[2..])).await), "err BrokenPipe", "{what}");
    want.push(Call::Write(d[2..].to_vec()));
    // ---- vectored writes: none of these wrappers overrides `poll_write_vectored`, so tokio's default applies - the
    // first non-empty slice goes to `poll_write`, and the count that comes back is the inner one
    assert!(!w.is_write_vectored(), "{what}: is_write_vectored");
    let (s0, s1, s2) = (&d[..0], &d[..3], &d[3..]);
    let slices = [IoSlice::new(s0), IoSlice::new(s1), IoSlice::new(s2)];
    assert_eq!(kind(once(|cx| Pin::new(&mut w).poll_write_vectored(cx, &slices)).await), "ok 3", "{what}");
    want.push(Call::Write(s1.to_vec()));
    assert_eq!(kind(once(|cx| Pin::new(&mut w).poll_write_vectored(cx, &slices[2..])).await), "ok 1", "{what}");
    want.push(Call::Write(s2.to_vec()));
    assert_eq!(kind(once(|cx| Pin::new(&mut w).poll_write_vectored(cx, &slices[1..])).await), "pending", "{what}");
    want.push(Call::Write(s1.to_vec()));
    // ---- flush / shutdown
    for r in ["pending", "ok ()", "err TimedOut"] {
        assert_eq!(kind(once(|cx| Pin::new(&mut w).poll_flush(cx)).await), r, "{what}: flush");
        want.push(Call::Flush);
    }
    for r in ["pending", "err NotConnected", "ok ()"] {
        assert_eq!(kind(once(|cx| Pin::new(&mut w).poll_shutdown(cx)).await), r, "{what}: shutdown");
        want.push(Call::Shutdown);
    }
    let st = st.lock().unwrap();
    assert_eq!(st.calls, want, "{what}: calls seen by the inner transport");
    assert!(st.script.is_empty());
}

// ------------------------------------------------------------------ TlsBraid (both arms)
/// fwd.tlsbraid.* / impl.tlsbraid.* [C18]
#[tokio::test]
async fn tlsbraid_forwards_both_arms() {
    // tokio's cooperative budget would turn every pipe operation into Pending after 128 polls without a yield
    tokio::task::unconstrained(tlsbraid_forwards_both_arms_body()).await
}
async fn tlsbraid_forwards_both_arms_body() {
    forwarding_conversation("TlsBraid::NoTls", |p| TlsBraid::<Probe, Probe>::NoTls(p)).await;
    forwarding_conversation("TlsBraid::Tls", |p| TlsBraid::<Probe, Probe>::Tls(p)).await;
    for cap in [1usize, 3, 64] {
        sweep("TlsBraid::NoTls(Duplex)", || async move {
            let (a, b) = duplex(cap);
            (TlsBraid::<DuplexStream, DuplexStream>::NoTls(a), TlsBraid::<DuplexStream, DuplexStream>::Tls(b))
        })
        .await;
    }
    vectored_sweep("TlsBraid(Duplex)", |cap| {
        let (a, b) = duplex(cap);
        (TlsBraid::<DuplexStream, DuplexStream>::Tls(a), TlsBraid::<DuplexStream, DuplexStream>::NoTls(b))
    })
    .await;
}

// ------------------------------------------------------------------ client / server `Stream`
/// fwd.cstream.* / impl.cstream.* [C18]
#[tokio::test]
async fn client_stream_forwards() {
    // tokio's cooperative budget would turn every pipe operation into Pending after 128 polls without a yield
    tokio::task::unconstrained(client_stream_forwards_body()).await
}
async fn client_stream_forwards_body() {
    forwarding_conversation("client Stream::new", ClientStream::new).await;
    for cap in [1usize, 3, 64] {
        sweep("client Stream(Duplex)", || async move {
            let (a, b) = duplex(cap);
            (ClientStream::from(a), ClientStream::from(b))
        })
        .await;
    }
    sweep("client Stream(Tcp)", || async {
        let (a, b) = tcp_pair().await;
        (ClientStream::from(a), ClientStream::from(b))
    })
    .await;
    sweep("client Stream(Unix)", || async {
        let (a, b) = unix_pair();
        (ClientStream::from(a), ClientStream::from(b))
    })
    .await;
    vectored_sweep("client Stream(Duplex)", |cap| {
        let (a, b) = duplex(cap);
        (ClientStream::from(a), ClientStream::from(b))
    })
    .await;
    let (a, b) = duplex(4);
    pending_and_error("client Stream(Duplex)", ClientStream::from(a), ClientStream::from(b), 4).await;
}

/// fwd.sstream.* / impl.sstream.* [C18]
#[tokio::test]
async fn server_stream_forwards() {
    // tokio's cooperative budget would turn every pipe operation into Pending after 128 polls without a yield
    tokio::task::unconstrained(server_stream_forwards_body()).await
}
async fn server_stream_forwards_body() {
    forwarding_conversation("server Stream::new", ServerStream::new).await;
    for cap in [1usize, 3, 64] {
        sweep("server Stream(Duplex)", || async move {
            let (a, b) = duplex(cap);
            (ServerStream::from(a), ServerStream::from(b))
        })
        .await;
    }
    sweep("server Stream(Braid::Tcp)", || async {
        let (a, b) = tcp_pair().await;
        (ServerStream::from(Braid::from(a)), ServerStream::from(Braid::from(b)))
    })
    .await;
    vectored_sweep("server Stream(Duplex)", |cap| {
        let (a, b) = duplex(cap);
        (ServerStream::from(a), ServerStream::from(b))
    })
    .await;
    let (a, b) = duplex(4);
    pending_and_error("server Stream(Duplex)", ServerStream::from(a), ServerStream::from(b), 4).await;
    // the connection info taken at construction is not disturbed by I/O
    let (a, _b) = duplex(4);
    let s = ServerStream::from(a);
    let before = s.info();
    let mut s = s;
    let _ = once(|cx| Pin::new(&mut s).poll_write(cx, b"xy")).await;
    assert_eq!(s.info(), before);
}

/// The fixture certificate of the repository has a fixed validity period; the scenario is about bytes, not about
/// certificates: accept whatever the server presents (signatures are still checked).
#[derive(Debug)]
struct AnyCert(Arc<rustls::crypto::CryptoProvider>);
impl rustls::client::danger::ServerCertVerifier for AnyCert {
    fn verify_server_cert(
        &self,
        _end_entity: &rustls::pki_types::CertificateDer<'_>,
        _intermediates: &[rustls::pki_types::CertificateDer<'_>],
        _server_name: &rustls::pki_types::ServerName<'_>,
        _ocsp: &[u8],
        _now: rustls::pki_types::UnixTime,
    ) -> Result<rustls::client::danger::ServerCertVerified, rustls::Error> {
        Ok(rustls::client::danger::ServerCertVerified::assertion())
    }
    fn verify_tls12_signature(
        &self,
        message: &[u8],
        cert: &rustls::pki_types::CertificateDer<'_>,
        dss: &rustls::DigitallySignedStruct,
    ) -> Result<rustls::client::danger::HandshakeSignatureValid, rustls::Error> {
        rustls::crypto::verify_tls12_signature(message, cert, dss, &self.0.signature_verification_algorithms)
    }
    fn verify_tls13_signature(
        &self,
        message: &[u8],
        cert: &rustls::pki_types::CertificateDer<'_>,
        dss: &rustls::DigitallySignedStruct,
    ) -> Result<rustls::client::danger::HandshakeSignatureValid, rustls::Error> {
        rustls::crypto::verify_tls13_signature(message, cert, dss, &self.0.signature_verification_algorithms)
    }
    fn supported_verify_schemes(&self) -> Vec<rustls::SignatureScheme> {
        self.0.signature_verification_algorithms.supported_schemes()
    }
}
fn any_cert_client_config() -> rustls::ClientConfig {
    let mut cfg = crate::fixtures::tls_client_config();
    let provider = rustls::crypto::CryptoProvider::get_default().expect("crypto provider installed").clone();
    cfg.dangerous().set_certificate_verifier(Arc::new(AnyCert(provider)));
    cfg
}

/// bounded stand-in A.streams.tls_arms [C18]: the `Tls` arms of both `Stream` wrappers over the REAL TLS streams
/// (client `Stream::tls` <-> tokio-rustls acceptor wrapped in the server `Stream`), both directions
#[tokio::test]
async fn stream_tls_arms_end_to_end() {
    // tokio's cooperative budget would turn every pipe operation into Pending after 128 polls without a yield
    tokio::task::unconstrained(stream_tls_arms_end_to_end_body()).await
}
async fn stream_tls_arms_end_to_end_body() {
    crate::fixtures::tls_install_default();
    let d = data(97);
    for (cap, wchunk, rcap) in [(64usize, 1usize, 1usize), (64, 7, 5), (4096, 97, 64), (33, 3, 64), (4096, 64, 2)] {
        let (a, b) = duplex(cap);
        let mut client = ClientStream::from(a).tls("example.com", Arc::new(any_cert_client_config()));
        let acceptor = tokio_rustls::TlsAcceptor::from(Arc::new(crate::fixtures::tls_server_config()));
        let tls = crate::server::conn::tls::TlsStream::new(acceptor.accept(Braid::from(b)));
        let mut server = ServerStream::from(tls);
        // client -> server and server -> client at the same time (the handshake is driven by the first I/O)
        let (mut cr, mut cw) = tokio::io::split(&mut client);
        let (mut sr, mut sw) = tokio::io::split(&mut server);
        let r = tokio::time::timeout(T, async {
            tokio::join!(transfer(&mut cw, &mut sr, &d, wchunk, rcap), transfer(&mut sw, &mut cr, &d, rcap.max(2), wchunk.max(2)))
        })
        .await
        .expect("tls transfer timed out");
        assert_eq!(r.0, d, "client -> server through TLS (pipe {cap}, chunk {wchunk}, read {rcap})");
        assert_eq!(r.1, d, "server -> client through TLS (pipe {cap}, chunk {wchunk}, read {rcap})");
    }
}

// ------------------------------------------------------------------ TokioIo / Rewind (units bridge, sniff; implsets in fwdimpls)
/// impl.tio.* [C18]: bytes through the bridge in both directions over a real pipe, zero-capacity hyper reads in
/// between, vectored writes cut at every boundary
#[tokio::test]
async fn tokioio_byte_exact() {
    // tokio's cooperative budget would turn every pipe operation into Pending after 128 polls without a yield
    tokio::task::unconstrained(tokioio_byte_exact_body()).await
}
async fn tokioio_byte_exact_body() {
    use crate::bridge::io::TokioIo;
    // tokio traits on TokioIo<TokioIo<Duplex>> : hyper side wrapped back into the tokio side, i.e. both impl pairs
    for cap in [1usize, 3, 64] {
        sweep("TokioIo<TokioIo<Duplex>>", || async move {
            let (a, b) = duplex(cap);
            (TokioIo::new(TokioIo::new(a)), TokioIo::new(TokioIo::new(b)))
        })
        .await;
    }
    vectored_sweep("TokioIo<TokioIo<Duplex>>", |cap| {
        let (a, b) = duplex(cap);
        (TokioIo::new(TokioIo::new(a)), TokioIo::new(TokioIo::new(b)))
    })
    .await;
    // hyper-side zero-capacity read while bytes are waiting, then real reads (the sticky-EOF scenario)
    let (mut a, b) = duplex(64);
    let mut io = TokioIo::new(b);
    let d = data(11);
    assert_eq!(kind(once(|cx| Pin::new(&mut a).poll_write(cx, &d)).await), "ok 11");
    let mut none: [std::mem::MaybeUninit<u8>; 0] = [];
    let mut zb = hyper::rt::ReadBuf::uninit(&mut none);
    match once(|cx| hyper::rt::Read::poll_read(Pin::new(&mut io), cx, zb.unfilled())).await {
        Poll::Ready(Ok(())) | Poll::Pending => {}
        Poll::Ready(Err(e)) => panic!("{e}"),
    }
    let mut got = Vec::new();
    for _ in 0..8 {
        let mut storage = [std::mem::MaybeUninit::<u8>::uninit(); 4];
        let mut rb = hyper::rt::ReadBuf::uninit(&mut storage);
        if let Poll::Ready(r) = once(|cx| hyper::rt::Read::poll_read(Pin::new(&mut io), cx, rb.unfilled())).await {
            r.unwrap();
            got.extend_from_slice(rb.filled());
        }
    }
    assert_eq!(got, d, "bytes after a zero-capacity read");
    // hyper-side vectored write: the inner transport sees the same slices
    let (p, st) = Probe::new(vec![Out::Count(2)]);
    let mut io = TokioIo::new(p);
    let slices = [IoSlice::new(&d[..0]), IoSlice::new(&d[..2]), IoSlice::new(&d[2..])];
    assert_eq!(kind(once(|cx| hyper::rt::Write::poll_write_vectored(Pin::new(&mut io), cx, &slices)).await), "ok 2");
    assert_eq!(st.lock().unwrap().calls, vec![Call::Write(d[..2].to_vec())]);
    assert_eq!(hyper::rt::Write::is_write_vectored(&io), false);
}

/// impl.rw.* [C18]: Rewind over a real pipe: prefix then the live bytes, every capacity, zero-capacity reads in between;
/// writes (plain and vectored, cut at every boundary) go to the inner transport untouched
#[tokio::test]
async fn rewind_byte_exact() {
    // tokio's cooperative budget would turn every pipe operation into Pending after 128 polls without a yield
    tokio::task::unconstrained(rewind_byte_exact_body()).await
}
async fn rewind_byte_exact_body() {
    use crate::bridge::io::TokioIo;
    use crate::rewind::Rewind;
    let d = data(61);
    for plen in [0usize, 1, 5, 24] {
        for cap in [1usize, 3, 64] {
            for (wchunk, rcap) in [(1usize, 1usize), (7, 5), (61, 64), (3, 64), (64, 2)] {
                let (mut a, b) = duplex(cap);
                // tokio traits over hyper traits over tokio traits
                let mut rw = TokioIo::new(Rewind::new(TokioIo::new(b), d[..plen].to_vec()));
                let got = transfer(&mut a, &mut rw, &d[plen..], wchunk, rcap).await;
                assert_eq!(got, d, "Rewind: prefix {plen}, pipe {cap}, chunk {wchunk}, read {rcap}");
            }
        }
    }
    vectored_sweep("Rewind", |cap| {
        let (a, b) = duplex(cap);
        (TokioIo::new(Rewind::new(TokioIo::new(a), Vec::<u8>::new())), b)
    })
    .await;
}
