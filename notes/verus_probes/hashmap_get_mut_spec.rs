#![feature(allocator_api)]
use vstd::prelude::*;
use std::collections::{HashMap, HashSet, VecDeque};
verus! {

pub uninterp spec fn get_mut_some<K, V, Q: ?Sized>(pre: Map<K, V>, post: Map<K, V>, k: &Q, cur: V, fin: V) -> bool;
pub uninterp spec fn get_mut_none<K, V, Q: ?Sized>(pre: Map<K, V>, post: Map<K, V>, k: &Q) -> bool;

pub broadcast axiom fn axiom_get_mut_some<K, V>(pre: Map<K, V>, post: Map<K, V>, k: &K, cur: V, fin: V)
    ensures #[trigger] get_mut_some::<K, V, K>(pre, post, k, cur, fin) <==> (pre.contains_key(*k) && cur == pre[*k] && post == pre.insert(*k, fin));
pub broadcast axiom fn axiom_get_mut_none<K, V>(pre: Map<K, V>, post: Map<K, V>, k: &K)
    ensures #[trigger] get_mut_none::<K, V, K>(pre, post, k) <==> (!pre.contains_key(*k) && post == pre);

pub assume_specification<'a, K, V, S, A, Q>[HashMap::<K,V,S,A>::get_mut](m: &'a mut HashMap<K,V,S,A>, k: &Q) -> (r: Option<&'a mut V>)
    where A: std::alloc::Allocator, K: std::cmp::Eq + std::hash::Hash + std::borrow::Borrow<Q>, Q: std::marker::MetaSized + std::hash::Hash + std::cmp::Eq + ?Sized, S: std::hash::BuildHasher
    ensures
        vstd::std_specs::hash::obeys_key_model::<K>() && vstd::std_specs::hash::builds_valid_hashers::<S>() ==> match r {
            Some(v) => get_mut_some(old(m)@, final(m)@, k, *v, *final(v)),
            None => get_mut_none(old(m)@, final(m)@, k),
        };

fn bump(m: &mut HashMap<u64, Vec<u8>>, k: u64)
    ensures
        old(m)@.contains_key(k) ==> final(m)@.dom() == old(m)@.dom() && final(m)@[k]@ == old(m)@[k]@.push(7u8)
            && (forall|j: u64| j != k && old(m)@.contains_key(j) ==> final(m)@[j] == old(m)@[j]),
        !old(m)@.contains_key(k) ==> final(m)@ == old(m)@,
{
    broadcast use axiom_get_mut_some, axiom_get_mut_none;
    if let Some(v) = m.get_mut(&k) {
        v.push(7u8);
    }
}
}
fn main() {}
