#![feature(allocator_api)]
use vstd::prelude::*;
use std::collections::{HashMap, HashSet, VecDeque};
verus! {

#[derive(Clone, Copy, PartialEq, Eq, Hash)]
pub struct Token(pub Option<usize>);
impl Token {
    pub fn is_zero(&self) -> (r: bool) ensures r == (self.0 is None) { self.0.is_none() }
}

pub trait PoolableConnection: Sized {
    spec fn id(&self) -> int;
    spec fn shareable(&self) -> bool;
    spec fn open_now(&self) -> bool;
    fn is_open(&self) -> (r: bool) ensures r == self.open_now();
    fn can_share(&self) -> (r: bool) ensures r == self.shareable();
}

pub struct PoolRef { pub x: u8 }
impl Clone for PoolRef { fn clone(&self) -> (r: Self) ensures r == *self { PoolRef { x: self.x } } }

#[verifier::external_body]
#[verifier::reject_recursive_types(C)]
pub struct PoolGuard<C: PoolableConnection> { p: std::marker::PhantomData<C> }

impl<C: PoolableConnection> PoolGuard<C> {
    #[verifier::external_body]
    pub fn push(&mut self, token: Token, connection: C, pool_ref: PoolRef)
        requires connection.open_now(), !(token.0 is None)
    { unimplemented!() }
}
impl PoolRef {
    #[verifier::external_body]
    pub fn lock<C: PoolableConnection>(&self) -> Option<PoolGuard<C>> { unimplemented!() }
}

pub struct WhenReady<C: PoolableConnection> {
    pub connection: Option<C>,
    pub token: Token,
    pub pool: PoolRef,
}

impl<C: PoolableConnection> WhenReady<C> {
    fn drop(&mut self)
    {
        if let Some(connection) = self.connection.take() {
            if connection.is_open() && !self.token.is_zero() {
                if let Some(mut pool) = self.pool.lock() {
                    pool.push(self.token, connection, self.pool.clone());
                }
            }
        }
    }
}
}
fn main() {}
