#![feature(allocator_api)]
use vstd::prelude::*;
use std::collections::{HashMap, HashSet, VecDeque};
verus! {

// ---------- prelude: std specs ----------
pub uninterp spec fn get_mut_some<K, V, Q: ?Sized>(pre: Map<K, V>, post: Map<K, V>, k: &Q, cur: V, fin: V) -> bool;
pub uninterp spec fn get_mut_none<K, V, Q: ?Sized>(pre: Map<K, V>, post: Map<K, V>, k: &Q) -> bool;
pub broadcast axiom fn axiom_get_mut_some<K, V>(pre: Map<K, V>, post: Map<K, V>, k: &K, cur: V, fin: V)
    ensures #[trigger] get_mut_some::<K, V, K>(pre, post, k, cur, fin) <==> (pre.contains_key(*k) && cur == pre[*k] && post == pre.insert(*k, fin));
pub broadcast axiom fn axiom_get_mut_none<K, V>(pre: Map<K, V>, post: Map<K, V>, k: &K)
    ensures #[trigger] get_mut_none::<K, V, K>(pre, post, k) <==> (!pre.contains_key(*k) && post == pre);
pub assume_specification<'a, K, V, S, A, Q>[HashMap::<K,V,S,A>::get_mut](m: &'a mut HashMap<K,V,S,A>, k: &Q) -> (r: Option<&'a mut V>)
    where A: std::alloc::Allocator, K: std::cmp::Eq + std::hash::Hash + std::borrow::Borrow<Q>, Q: std::marker::MetaSized + std::hash::Hash + std::cmp::Eq + ?Sized, S: std::hash::BuildHasher
    ensures
        vstd::std_specs::hash::obeys_key_model::<K>() && vstd::std_specs::hash::builds_valid_hashers::<S>() ==> match r {
            Some(v) => get_mut_some(old(m)@, final(m)@, k, *v, *final(v)),
            None => get_mut_none(old(m)@, final(m)@, k),
        };

pub assume_specification<'a, K, V>[std::collections::hash_map::Entry::<'a, K, V>::or_default](e: std::collections::hash_map::Entry<'a, K, V>) -> (r: &'a mut V)
    where V: std::default::Default;

#[derive(Clone, Copy, PartialEq, Eq, Hash)]
pub struct Token(pub Option<usize>);
impl Token {
    pub fn zero() -> (r: Token) ensures r == Token(None) { Token(None) }
}
pub broadcast axiom fn axiom_token_key_model() ensures #[trigger] vstd::std_specs::hash::obeys_key_model::<Token>();

pub trait PoolableConnection: Sized {
    spec fn id(&self) -> int;
    spec fn shareable(&self) -> bool;
    fn is_open(&self) -> bool;
    fn can_share(&self) -> (r: bool) ensures r == self.shareable();
    fn reuse(&mut self) -> (r: Option<Self>)
        ensures final(self).id() == old(self).id(), final(self).shareable() == old(self).shareable(),
                r is Some <==> old(self).shareable(),
                r is Some ==> r->0.id() == old(self).id() && r->0.shareable();
}

pub struct PoolRef { pub x: u8 }
impl Clone for PoolRef { fn clone(&self) -> (r: Self) ensures r == *self { PoolRef { x: self.x } } }

pub struct Pooled<C: PoolableConnection> {
    pub connection: Option<C>,
    pub token: Token,
    pub pool: PoolRef,
}
impl<C: PoolableConnection> Pooled<C> {
    #[verifier::external_body]
    fn take(self) -> (r: Option<C>) ensures r == self.connection { unimplemented!() }
}

#[verifier::external_body]
#[verifier::reject_recursive_types(T)]
pub struct Sender<T> { inner: std::marker::PhantomData<T> }
impl<T> Sender<T> {
    #[verifier::external_body]
    pub fn is_closed(&self) -> bool { unimplemented!() }
    #[verifier::external_body]
    pub fn send(self, t: T) -> (r: Result<(), T>)
        ensures r is Err ==> r->Err_0 == t
    { unimplemented!() }
}

pub struct Config { pub max_idle_per_host: usize }

#[verifier::reject_recursive_types(C)]
pub struct PoolInner<C: PoolableConnection> {
    pub config: Config,
    pub connecting: HashSet<Token>,
    pub waiting: HashMap<Token, VecDeque<Sender<Pooled<C>>>>,
    pub idle: HashMap<Token, Vec<C>>,
}

impl<C: PoolableConnection> PoolInner<C> {
    pub open spec fn idle_len(&self, t: Token) -> nat {
        if self.idle@.contains_key(t) { self.idle@[t]@.len() } else { 0 }
    }

    #[verifier::loop_isolation(false)]
    fn push(&mut self, token: Token, mut connection: C, pool_ref: PoolRef)
        ensures
            final(self).connecting@ == old(self).connecting@.remove(token),
            forall|t: Token| t != token && old(self).waiting@.contains_key(t) ==> final(self).waiting@.contains_key(t) && #[trigger] final(self).waiting@[t] == old(self).waiting@[t],
            final(self).waiting@.dom() == old(self).waiting@.dom(),
    {
        broadcast use axiom_get_mut_some, axiom_get_mut_none, axiom_token_key_model;
        let ghost cid = connection.id();
        self.connecting.remove(&token);

        if let Some(waiters) = self.waiting.get_mut(&token) {
            while let Some(waiter) = waiters.pop_front()
                invariant connection.id() == cid,
                decreases waiters@.len(),
            {
                if waiter.is_closed() {
                    continue;
                }

                if let Some(conn) = connection.reuse() {
                    let pooled = Pooled {
                        connection: Some(conn),
                        token: Token::zero(),
                        pool: pool_ref.clone(),
                    };

                    if waiter.send(pooled).is_err() {
                        continue;
                    };
                } else {
                    let pooled = Pooled {
                        connection: Some(connection),
                        token,
                        pool: pool_ref.clone(),
                    };

                    let Err(pooled) = waiter.send(pooled) else {
                        return;
                    };

                    connection = pooled.take().unwrap();
                }
            }
        }

        self.idle.entry(token).or_default().push(connection);
    }
}
}
fn main() {}
