use vstd::prelude::*;
use std::collections::VecDeque;
verus! {
pub struct S { pub q: VecDeque<u8>, pub tasks: VecDeque<u8>, pub error: Option<u8> }
impl S {
    fn c(&mut self, x: Option<u8>) -> (r: u8)
        ensures final(self).q == old(self).q,
    {
        match x {
            Some(0) => 0,
            Some(e) if self.error.is_none() => { self.error = Some(e); 1 }
            Some(_) => 1,
            None => 2,
        }
    }
    fn c2(&mut self, x: Option<u8>) -> (r: u8)
        ensures old(self).error is Some ==> final(self).error == old(self).error,
    {
        match x {
            Some(0) => 0,
            Some(e) if self.error.is_none() => { assert(self.error is None); self.error = Some(e); 1 }
            Some(_) => 1,
            None => 2,
        }
    }
}
}
fn main() {}
