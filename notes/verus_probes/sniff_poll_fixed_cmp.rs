use vstd::prelude::*;
use std::task::{Poll, Context, ready};
use std::pin::Pin;
use std::io;
use std::mem::MaybeUninit;
verus! {

// ---------------- prelude (trusted) ----------------
#[verifier::external_type_specification]
#[verifier::external_body]
pub struct ExContext<'a>(Context<'a>);
#[verifier::external_type_specification]
#[verifier::reject_recursive_types_in_ground_variants(T)]
pub struct ExPoll<T>(Poll<T>);
#[verifier::external_type_specification]
#[verifier::external_body]
pub struct ExIoError(io::Error);

pub assume_specification<T, E, F> [<std::task::Poll<std::result::Result<T, F>> as std::ops::FromResidual<std::result::Result<std::convert::Infallible, E>>>::from_residual] (r: std::result::Result<std::convert::Infallible, E>) -> (p: std::task::Poll<std::result::Result<T, F>>)
    where F: std::convert::From<E>
    ensures p matches Poll::Ready(Err(_));

pub open spec fn preface() -> Seq<u8> {
    seq![0x50u8,0x52,0x49,0x20,0x2a,0x20,0x48,0x54,0x54,0x50,0x2f,0x32,0x2e,0x30,0x0d,0x0a,0x0d,0x0a,0x53,0x4d,0x0d,0x0a,0x0d,0x0a]
}

#[verifier::external_body]
pub struct ReadBuf<'a> { p: std::marker::PhantomData<&'a mut u8> }
#[verifier::external_body]
pub struct ReadBufCursor<'a> { p: std::marker::PhantomData<&'a mut u8> }

impl<'a> ReadBuf<'a> {
    pub uninterp spec fn cap(&self) -> nat;
    pub uninterp spec fn fill(&self) -> Seq<u8>;
    #[verifier::external_body]
    pub fn filled(&self) -> (s: &[u8]) ensures s@ == self.fill() { unimplemented!() }
    #[verifier::external_body]
    pub fn unfilled<'c>(&'c mut self) -> (c: ReadBufCursor<'c>)
        ensures c.room() == old(self).cap() - old(self).fill().len(),
                final(self).cap() == old(self).cap(),
                final(self).fill() == old(self).fill() + c.written(),
                c.written().len() <= c.room(),
    { unimplemented!() }
}
impl<'a> ReadBufCursor<'a> {
    pub uninterp spec fn room(&self) -> nat;
    pub uninterp spec fn written(&self) -> Seq<u8>;   // prophecy: everything that will have been written through this cursor
    #[verifier::external_body]
    pub unsafe fn advance(&mut self, n: usize)
        requires n <= old(self).room()
        ensures old(self).written().len() == n, final(self).room() == 0nat
    { unimplemented!() }
}
#[verifier::external_body]
pub fn readbuf_uninit<'a>(buf: &'a mut [MaybeUninit<u8>; 24]) -> (r: ReadBuf<'a>)
    ensures r.cap() == 24, r.fill().len() == 0
{ unimplemented!() }

#[verifier::external_body]
#[verifier::reject_recursive_types(I)]
pub struct Rewind<I> { i: std::marker::PhantomData<I> }
impl<I> Rewind<I> {
    pub uninterp spec fn prefix(&self) -> Seq<u8>;
    pub uninterp spec fn inner(&self) -> I;
    #[verifier::external_body]
    pub fn new(inner: I, prefix: Vec<u8>) -> (r: Self) ensures r.prefix() == prefix@, r.inner() == inner { unimplemented!() }
}
#[verifier::external_body]
pub fn interrupted() -> io::Error { unimplemented!() }
#[verifier::external_body]
pub fn slice_from(s: &[u8], from: usize) -> (r: &[u8]) requires from <= s@.len() ensures r@ == s@.subrange(from as int, s@.len() as int) { unimplemented!() }
#[verifier::external_body]
pub fn slice_ne(a: &[u8], b: &[u8]) -> (r: bool) ensures r == (a@ != b@) { unimplemented!() }
#[verifier::external_body]
pub fn to_vec(a: &[u8]) -> (r: Vec<u8>) ensures r@ == a@ { unimplemented!() }
#[verifier::external_body]
pub fn slice_range(s: &[u8], from: usize, to: usize) -> (r: &[u8]) requires from <= to <= s@.len() ensures r@ == s@.subrange(from as int, to as int) { unimplemented!() }
#[verifier::external_body]
pub fn prefix_const() -> (r: &'static [u8]) ensures r@ == preface() { unimplemented!() }


pub trait Read: Sized {
    spec fn remaining(&self) -> Seq<u8>;
    spec fn origin(&self) -> Seq<u8>;
    fn poll_read(&mut self, cx: &mut Context<'_>, buf: ReadBufCursor<'_>) -> (r: Poll<Result<(), io::Error>>)
        ensures
            final(self).origin() == old(self).origin(),
            r is Pending ==> final(self).remaining() == old(self).remaining() && buf.written().len() == 0,
            r matches Poll::Ready(Err(_)) ==> buf.written().len() == 0,
            r matches Poll::Ready(Ok(_)) ==> old(self).remaining() == buf.written() + final(self).remaining()
                && (buf.written().len() == 0 ==> (buf.room() == 0 || old(self).remaining().len() == 0));
}

#[derive(Clone, Copy, PartialEq, Eq)]
pub enum HttpProtocol { Http1, Http2 }

pub struct ReadVersion<I> {
    pub io: Option<I>,
    pub filled: usize,
    pub version: HttpProtocol,
    pub cancelled: bool,
}

impl<I: Read> ReadVersion<I> {
    pub open spec fn consumed(&self) -> Seq<u8> {
        let io = self.io->0;
        io.origin().take(io.origin().len() - io.remaining().len())
    }
    pub open spec fn inv(&self) -> bool {
        &&& self.io is Some
        &&& self.io->0.remaining().len() <= self.io->0.origin().len()
        &&& self.io->0.origin() == self.consumed() + self.io->0.remaining()
        &&& self.filled <= 24
        &&& self.filled == self.consumed().len()
        &&& self.version == HttpProtocol::Http2
        &&& self.consumed() == preface().take(self.filled as int)
    }

    pub open spec fn base(&self, o: Seq<u8>) -> bool {
        &&& self.io is Some
        &&& self.io->0.origin() == o
        &&& self.io->0.remaining().len() <= o.len()
        &&& o == self.consumed() + self.io->0.remaining()
        &&& self.filled <= 24
        &&& self.filled == self.consumed().len()
    }

    #[verifier::loop_isolation(false)]
    #[verifier::allow_complex_invariants]
    fn poll(&mut self, cx: &mut Context<'_>, buf0: &mut [MaybeUninit<u8>; 24]) -> (r: Poll<Result<(HttpProtocol, Rewind<I>), io::Error>>)
        requires old(self).inv(), !old(self).cancelled,
        ensures
            r is Pending ==> final(self).inv() && final(self).io->0.origin() == old(self).io->0.origin(),
            r matches Poll::Ready(Ok((v, rw))) ==> {
                let o = old(self).io->0.origin();
                &&& (v == HttpProtocol::Http2 <==> (o.len() >= 24 && o.take(24) == preface()))
            },
    {
        let ghost o = self.io->0.origin();
        if self.cancelled {
            return Poll::Ready(Err(interrupted()));
        }

        let mut buf = readbuf_uninit(buf0);

        unsafe {
            buf.unfilled().advance(self.filled);
        }

        while buf.filled().len() < prefix_const().len()
            invariant_except_break
                self.version == HttpProtocol::Http2,
                self.consumed() == preface().take(self.filled as int),
            invariant
                self.base(o),
                buf.cap() == 24,
                buf.fill().len() <= 24,
                self.filled == buf.fill().len(),
            ensures
                self.version == HttpProtocol::Http2 <==> (o.len() >= 24 && o.take(24) == preface()),
            decreases 24 - buf.fill().len(),
        {
            let len = buf.filled().len();
            let ghost rem0 = self.io->0.remaining();
            let ghost cons0 = self.consumed();
            let ghost fill0 = buf.fill();
            ready!((self.io.as_mut().unwrap()).poll_read(cx, buf.unfilled()))?;
            self.filled = buf.filled().len();
            proof {
                let w = buf.fill().subrange(len as int, buf.fill().len() as int);
                assert(buf.fill() =~= fill0 + w);
                assert(rem0 == w + self.io->0.remaining());
                assert(self.consumed() =~= cons0 + w);
                assert(o =~= self.consumed() + self.io->0.remaining());
                assert(o.take(self.filled as int) =~= self.consumed());
                if o.len() >= 24 && o.take(24) == preface() {
                    assert(o.take(24).take(self.filled as int) =~= o.take(self.filled as int));
                    assert(preface().take(self.filled as int) =~= preface().take(len as int) + preface().subrange(len as int, self.filled as int));
                    assert(w =~= preface().subrange(len as int, self.filled as int)) by {
                        assert(cons0 + w == preface().take(len as int) + preface().subrange(len as int, self.filled as int));
                        assert(cons0.len() == len);
                        assert((cons0 + w).subrange(len as int, self.filled as int) =~= w);
                        assert((preface().take(len as int) + preface().subrange(len as int, self.filled as int)).subrange(len as int, self.filled as int) =~= preface().subrange(len as int, self.filled as int));
                    }
                }
                if w == preface().subrange(len as int, self.filled as int) {
                    assert(self.consumed() =~= preface().take(self.filled as int));
                }
            }

            if buf.filled().len() == len || slice_ne(slice_from(buf.filled(), len), slice_range(prefix_const(), len, buf.filled().len())) {
                self.version = HttpProtocol::Http1;
                break;
            }
        }
        proof {
            if self.version == HttpProtocol::Http2 {
                assert(self.filled == 24);
                assert(o.take(24) =~= self.consumed());
                assert(preface().take(24) =~= preface());
            }
        }

        let io = self.io.take().unwrap();
        let rewind = Rewind::new(io, to_vec(buf.filled()));
        Poll::Ready(Ok((self.version, rewind)))
    }
}
}
fn main() {}
