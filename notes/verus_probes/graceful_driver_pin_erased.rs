use vstd::prelude::*;
use std::task::{Poll, Context};
verus! {
#[verifier::external_type_specification]
#[verifier::external_body]
pub struct ExContext<'a>(Context<'a>);
#[verifier::external_type_specification]
#[verifier::reject_recursive_types_in_ground_variants(T)]
pub struct ExPoll<T>(Poll<T>);

// stand-in for server::conn::Connection + Future after Pin erasure
pub trait ConnK: Sized {
    spec fn done(&self) -> bool;
    spec fn told(&self) -> nat;            // number of graceful_shutdown calls received
    fn poll(&mut self, cx: &mut Context<'_>) -> (r: Poll<()>)
        ensures final(self).told() == old(self).told(), r is Ready <==> final(self).done();
    fn graceful_shutdown(&mut self)
        ensures final(self).told() == old(self).told() + 1, final(self).done() == old(self).done();
}

#[verifier::external_body]
pub struct FuseClose { x: u8 }
impl FuseClose {
    pub uninterp spec fn fired(&self) -> bool;      // has already returned Ready once
    pub uninterp spec fn signalled(&self) -> bool;  // the shutdown channel is closed
    #[verifier::external_body]
    pub fn poll(&mut self, cx: &mut Context<'_>) -> (r: Poll<()>)
        ensures r is Ready <==> (!old(self).fired() && old(self).signalled()),
                final(self).fired() == (old(self).fired() || r is Ready),
                final(self).signalled() == old(self).signalled(),
    { unimplemented!() }
}
#[verifier::external_body]
pub struct CloseSender { x: u8 }
impl CloseSender {
    pub uninterp spec fn sent(&self) -> bool;
    #[verifier::external_body]
    pub fn send(&mut self) ensures final(self).sent() { unimplemented!() }
}

pub struct GracefulConnectionDriver<C: ConnK> {
    pub conn: C,
    pub shutdown: FuseClose,
    pub finished: CloseSender,
}

impl<C: ConnK> GracefulConnectionDriver<C> {
    #[verifier::exec_allows_no_decreases_clause]
    #[verifier::loop_isolation(false)]
    fn poll(&mut self, cx: &mut Context<'_>) -> (r: Poll<()>)
        ensures
            r is Ready ==> final(self).finished.sent() && final(self).conn.done(),
            // told to shut down at most once per firing of the (fused) signal
            final(self).conn.told() <= old(self).conn.told() + 1,
            (!old(self).shutdown.fired() && old(self).shutdown.signalled() && r is Pending) ==> final(self).conn.told() == old(self).conn.told() + 1,
    {
        loop
            invariant
                self.conn.told() <= old(self).conn.told() + 1,
                self.conn.told() == old(self).conn.told() + 1 ==> self.shutdown.fired(),
                self.shutdown.signalled() == old(self).shutdown.signalled(),
                self.shutdown.fired() ==> (old(self).shutdown.fired() || self.conn.told() == old(self).conn.told() + 1),
                old(self).shutdown.fired() ==> self.shutdown.fired() && self.conn.told() == old(self).conn.told(),
        {
            match (&mut self.conn).poll(cx) {
                Poll::Ready(()) => {
                    self.finished.send();
                    return Poll::Ready(());
                }
                Poll::Pending => {}
            };

            match (&mut self.shutdown).poll(cx) {
                Poll::Ready(()) => {
                    (&mut self.conn).graceful_shutdown();
                }
                Poll::Pending => return Poll::Pending,
            }
        }
    }
}
}
fn main() {}
