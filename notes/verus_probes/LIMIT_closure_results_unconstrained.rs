use vstd::prelude::*;
verus! {
fn f(o: Option<u8>, lim: u8) -> (r: bool)
    ensures o is Some ==> r == (o->0 < lim), o is None ==> !r,
{
    o.map(|v| v < lim).unwrap_or(false)
}
}
fn main() {}
