use vstd::prelude::*;
use std::collections::VecDeque;
use std::future::Future;
use std::time::Duration;
verus! {

pub struct Elapsed { pub x: u8 }
pub enum HappyEyeballsError<T> { Timeout(Duration), NoProgress, Error(T) }
pub enum Eyeball<T> { Ok(T), Error, Timeout(Elapsed), Exhausted }

#[verifier::external_body]
#[verifier::reject_recursive_types(F)]
pub struct FuturesUnordered<F> { p: std::marker::PhantomData<F> }
impl<F> FuturesUnordered<F> {
    pub uninterp spec fn view(&self) -> Seq<F>;
    #[verifier::external_body]
    pub fn push(&self, f: F) { unimplemented!() }
}

#[verifier::reject_recursive_types(F)]
pub struct EyeballSet<F, T, E> {
    pub queue: VecDeque<F>,
    pub tasks: FuturesUnordered<F>,
    pub delay: Option<Duration>,
    pub initial_concurrency: Option<usize>,
    pub error: Option<HappyEyeballsError<E>>,
    pub result: std::marker::PhantomData<T>,
}

impl<F, T, E> EyeballSet<F, T, E>
where
    F: Future<Output = Result<T, E>>,
{
    #[verifier::external_body]
    async fn join_next(&mut self) -> Eyeball<T> { unimplemented!() }

    #[verifier::external_body]
    async fn join_next_with_timeout(&mut self) -> Eyeball<T> { unimplemented!() }

    #[verifier::exec_allows_no_decreases_clause]
    async fn process_all(&mut self) -> Result<T, HappyEyeballsError<E>> {
        for _ in 0..self.initial_concurrency.unwrap_or(self.queue.len()) {
            if let Some(future) = self.queue.pop_front() {
                self.tasks.push(future);
            }
        }

        while let Some(future) = self.queue.pop_front() {
            match self.join_next_with_timeout().await {
                Eyeball::Ok(outcome) => return Ok(outcome),
                _ => self.tasks.push(future),
            }
        }

        loop {
            match self.join_next().await {
                Eyeball::Ok(outcome) => return Ok(outcome),
                Eyeball::Error => continue,
                Eyeball::Timeout(_) => panic!("unexpected timeout"),
                Eyeball::Exhausted => {
                    return self
                        .error
                        .take()
                        .map(|e| Err(e))
                        .unwrap_or(Err(HappyEyeballsError::NoProgress))
                }
            }
        }
    }
}
}
fn main() {}
