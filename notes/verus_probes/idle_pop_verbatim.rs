use vstd::prelude::*;
use std::time::{Duration, Instant};
verus! {

#[verifier::external_type_specification]
#[verifier::external_body]
pub struct ExInstant(Instant);

pub uninterp spec fn inst(i: Instant) -> int;

pub assume_specification [Instant::now] () -> Instant;
pub assume_specification [Instant::checked_sub] (i: &Instant, d: Duration) -> Option<Instant>;
pub assume_specification [Duration::as_secs_f64] (d: &Duration) -> f64;
pub assume_specification<T, P: FnOnce(&T) -> bool> [Option::<T>::filter] (o: Option<T>, p: P) -> (r: Option<T>)
    ensures r is Some ==> r == o;
pub assume_specification [<Instant as PartialOrd>::partial_cmp] (a: &Instant, b: &Instant) -> (r: Option<std::cmp::Ordering>);

pub trait PoolableConnection: Sized {
    spec fn open_now(&self) -> bool;
    fn is_open(&self) -> (r: bool) ensures r == self.open_now();
}

pub open spec fn opt_open<T: PoolableConnection>(o: Option<T>) -> bool { o is Some ==> o->0.open_now() }
pub open spec fn opt_none<T>(o: Option<T>) -> bool { o is None }

pub struct Idle<T> {
    pub at: Instant,
    pub inner: T,
}

pub struct IdleConnections<T> {
    pub inner: Vec<Idle<T>>,
}

impl<T> IdleConnections<T> {
    pub fn pop(&mut self, idle_timeout: Option<Duration>) -> (r: Option<T>)
    where
        T: PoolableConnection,
        ensures r is Some ==> r->0.open_now(),
                final(self).inner@.len() <= old(self).inner@.len(),
    {
        let mut empty = false;
        let mut idle_entry = None;

        if !self.is_empty() {
            let exipred = idle_timeout
                .filter(|timeout| timeout.as_secs_f64() > 0.0)
                .and_then(|timeout| {
                    let now: Instant = Instant::now();
                    now.checked_sub(timeout)
                });

            while let Some(entry) = self.inner.pop()
                invariant_except_break opt_none::<T>(idle_entry),
                invariant self.inner@.len() <= old(self).inner@.len(),
                ensures opt_open::<T>(idle_entry),
                decreases self.inner@.len(),
            {
                if exipred.map(|expired| entry.at < expired).unwrap_or(false) {
                    empty = true;
                    break;
                }

                if entry.inner.is_open() {
                    idle_entry = Some(entry.inner);
                    break;
                } else {
                }
            }

            empty = empty || self.is_empty();
        }

        if empty {
            self.clear();
        }

        idle_entry
    }

    pub fn is_empty(&self) -> (r: bool) ensures r == (self.inner@.len() == 0) {
        self.inner.is_empty()
    }

    pub fn clear(&mut self) ensures final(self).inner@.len() == 0 {
        self.inner.clear();
    }
}
}
fn main() {}
