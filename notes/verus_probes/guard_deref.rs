use vstd::prelude::*;
use std::ops::{Deref, DerefMut};
verus! {
pub struct Inner { pub n: u64 }
impl Inner {
    fn bump(&mut self) ensures final(self).n >= old(self).n { if self.n < 10 { self.n = self.n + 1; } }
}

#[verifier::external_body]
pub struct Guard<'a> { p: &'a mut Inner }

impl<'a> Deref for Guard<'a> {
    type Target = Inner;
    #[verifier::external_body]
    fn deref(&self) -> &Inner { unimplemented!() }
}
impl<'a> DerefMut for Guard<'a> {
    #[verifier::external_body]
    fn deref_mut(&mut self) -> &mut Inner { unimplemented!() }
}

pub struct M { pub x: u8 }
impl M {
    #[verifier::external_body]
    fn lock(&self) -> Guard<'_> { unimplemented!() }

    fn go(&self) {
        let mut inner = self.lock();
        inner.bump();
        let k = inner.n;
    }
}
}
fn main() {}
